//! Demonstration over real sockets and the full hyper/h2 path: a StreamingPull client that
//! stops reading swallows the wake-up that a healthy, waiting StreamingPull needs.
//!
//! A (never reads its responses) and B (reads) are both open on one subscription. Small
//! messages are published one at a time. While A's HTTP/2 window has room, A and B share the
//! messages. Once A's window is exhausted A's handler is parked on the availability signal
//! but is never polled again; when `notify_one` picks it, the message stays in the backlog
//! although B is waiting. A third client probes with Pull(return_immediately) 300 ms after
//! every publish: finding the message there is the violation.

use deltio::pubsub_proto::publisher_client::PublisherClient;
use deltio::pubsub_proto::subscriber_client::SubscriberClient;
use deltio::pubsub_proto::*;
use deltio::Deltio;
use hyper_util::rt::TokioIo;
use std::sync::atomic::{AtomicUsize, Ordering};
use std::sync::Arc;
use std::time::Duration;
use tokio::net::{UnixListener, UnixStream};
use tokio_stream::wrappers::UnixListenerStream;
use tonic::transport::{Channel, Endpoint};
use tower::service_fn;

async fn connect(sock: &str) -> Channel {
    let sock = Arc::new(sock.to_string());
    Endpoint::try_from("http://doesnt.matter")
        .unwrap()
        .connect_with_connector(service_fn(move |_| {
            let sock = Arc::clone(&sock);
            async move { Ok::<_, std::io::Error>(TokioIo::new(UnixStream::connect(sock.as_ref()).await?)) }
        }))
        .await
        .unwrap()
}

fn first_request(sub: &str) -> StreamingPullRequest {
    StreamingPullRequest {
        subscription: sub.to_string(),
        ack_ids: vec![],
        modify_deadline_seconds: vec![],
        modify_deadline_ack_ids: vec![],
        stream_ack_deadline_seconds: 600,
        client_id: String::new(),
        max_outstanding_messages: 0,
        max_outstanding_bytes: 0,
    }
}

#[tokio::test(flavor = "multi_thread", worker_threads = 4)]
async fn a_stalled_streaming_pull_swallows_the_wakeup_of_a_waiting_one() {
    let sock = format!("{}/stalled-{}.sock", std::env::temp_dir().display(), std::process::id());
    let _ = std::fs::remove_file(&sock);
    let listener = UnixListener::bind(&sock).unwrap();
    let app = Deltio::new();
    let server = app.server_builder();
    tokio::spawn(async move {
        server.serve_with_incoming(UnixListenerStream::new(listener)).await.unwrap();
    });

    let topic = "projects/p/topics/t";
    let sub = "projects/p/subscriptions/s";
    let mut publisher = PublisherClient::new(connect(&sock).await);
    let mut admin = SubscriberClient::new(connect(&sock).await);
    publisher.create_topic(Topic { name: topic.into(), ..Default::default() }).await.unwrap();
    admin
        .create_subscription(Subscription { name: sub.into(), topic: topic.into(), ack_deadline_seconds: 600, ..Default::default() })
        .await
        .unwrap();

    // A: its own connection, never reads. The request side stays open.
    let mut client_a = SubscriberClient::new(connect(&sock).await);
    let (_tx_a, rx_a) = tokio::sync::mpsc::channel::<StreamingPullRequest>(4);
    _tx_a.send(first_request(sub)).await.unwrap();
    let stalled = client_a.streaming_pull(tokio_stream::wrappers::ReceiverStream::new(rx_a)).await.unwrap().into_inner();
    // (never polled)

    // B: its own connection, reads everything.
    let mut client_b = SubscriberClient::new(connect(&sock).await);
    let (_tx_b, rx_b) = tokio::sync::mpsc::channel::<StreamingPullRequest>(4);
    _tx_b.send(first_request(sub)).await.unwrap();
    let mut healthy = client_b.streaming_pull(tokio_stream::wrappers::ReceiverStream::new(rx_b)).await.unwrap().into_inner();
    let got_b = Arc::new(AtomicUsize::new(0));
    let got_b2 = Arc::clone(&got_b);
    tokio::spawn(async move {
        while let Ok(Some(m)) = healthy.message().await {
            got_b2.fetch_add(m.received_messages.len(), Ordering::SeqCst);
        }
    });
    tokio::time::sleep(Duration::from_millis(200)).await;

    // Small messages (below the response encoder's 32 KiB batching threshold), one at a time.
    let payload = vec![b'x'; 24 * 1024];
    let mut found = None;
    for k in 0..400usize {
        publisher
            .publish(PublishRequest {
                topic: topic.into(),
                messages: vec![PubsubMessage { data: payload.clone(), ..Default::default() }],
            })
            .await
            .unwrap();
        tokio::time::sleep(Duration::from_millis(300)).await;
        let probe = admin
            .pull(PullRequest { subscription: sub.into(), max_messages: 10, return_immediately: true })
            .await
            .unwrap()
            .into_inner();
        if !probe.received_messages.is_empty() {
            found = Some((k, probe.received_messages.len()));
            break;
        }
    }
    drop(stalled);
    let _ = std::fs::remove_file(&sock);
    if let Some((k, n)) = found {
        panic!(
            "C06 violated: 300 ms after publish #{} there are {} message(s) in the backlog although a healthy StreamingPull (which received {} messages so far) is open and waiting",
            k,
            n,
            got_b.load(Ordering::SeqCst)
        );
    }
}
