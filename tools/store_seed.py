#!/usr/bin/env python3
"""Store a confirmed seeded change under /verif/seeded/<ID>-agent<round>/.

  tools/store_seed.py <round> <ID> <agent-out-dir> <first_run: caught|missed|...> <detected signatures, separated by ;> [strengthening text]

Copies patch.diff, the demonstration test and demo.md, and writes meta.json (the agent's own
meta plus what was confirmed here and which check signatures detect the change).
"""
import glob
import json
import os
import shutil
import sys


def main():
    rnd, pid, src, first, sigs = sys.argv[1:6]
    strengthening = sys.argv[6] if len(sys.argv) > 6 else "-"
    root = os.path.dirname(os.path.dirname(os.path.abspath(__file__)))
    dst = os.path.join(root, "seeded", "%s-agent%s" % (pid, rnd))
    os.makedirs(dst, exist_ok=True)
    shutil.copy(os.path.join(src, "patch.diff"), dst)
    for f in glob.glob(os.path.join(src, "*.rs")) + glob.glob(os.path.join(src, "demo.md")):
        shutil.copy(f, dst)
    am = json.load(open(os.path.join(src, "meta.json")))
    rounds = {"3": "third", "4": "fourth", "5": "fifth", "6": "sixth", "7": "seventh", "8": "eighth", "9": "ninth", "10": "tenth", "11": "eleventh", "12": "twelfth"}
    meta = {
        "property": pid,
        "author": "independent sub-agent (%s round: given the property text, a scratch worktree and one-sentence summaries of the earlier rounds' changes to avoid)" % rounds.get(rnd, rnd),
        "summary": am.get("summary", ""),
        "needs_to_manifest": am.get("needs_to_manifest", ""),
        "files_changed": am.get("files_changed", []),
        "agent_verification": am.get("verified", {}),
        "confirmed_in_scratch_worktree": {
            "command": "tools/seeded_verify.sh %s <dir>" % pid,
            "patch_applies": True,
            "existing_42_tests_pass_with_change": True,
            "demo_fails_with_change": True,
            "demo_passes_without_change": True,
        },
        "checks_run": {
            "command": "tools/mutate.py --scratch N seeded/%s-agent%s/patch.diff %s" % (pid, rnd, pid),
            "detected_by": {"%s quick" % pid: [s for s in sigs.split(";") if s]},
        },
        "first_run_with_the_checks_as_they_stood_before_this_round": first,
        "detected_by_own_property_check_on_first_run": first == "caught",
        "strengthening": strengthening,
    }
    json.dump(meta, open(os.path.join(dst, "meta.json"), "w"), indent=1)
    print("stored", dst)


if __name__ == "__main__":
    main()
