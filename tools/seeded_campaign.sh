#!/bin/bash
# Runs every seeded change (seeded/*/patch.diff) against the quick check of its own property,
# K of them at a time (scratch areas /tmp/mutwork<base>..<base+K-1>). Changes whose meta.json
# carries a "status" (neutralised by a later fix) are skipped.
#   tools/seeded_campaign.sh [K=3] [base=0]   -> one "RESULT <dir> {...}" line per change on stdout
K=${1:-3}; BASE=${2:-0}
cd "$(dirname "$0")/.."
ls -d seeded/*/ | while read d; do
  st=$(python3 -c "import json;print(json.load(open('$d/meta.json')).get('status',''))")
  if [ -n "$st" ]; then echo "SKIP $d ($st)" >&2; continue; fi
  echo $d
done > /tmp/seeded_campaign.list
run_slice() {
  i=$1
  awk -v k=$K -v i=$i 'NR % k == i' /tmp/seeded_campaign.list | while read d; do
    pid=$(python3 -c "import json;print(json.load(open('$d/meta.json'))['property'])")
    out=$(tools/mutate.py --scratch $((BASE+i)) $d/patch.diff $pid 2>&1 | grep -E "RESULT|signature|VACUOUS|INCONCLUSIVE|does not apply" | cut -c1-200)
    echo "=== $d $pid"; echo "$out"
  done
}
for i in $(seq 0 $((K-1))); do run_slice $i > /tmp/seeded_campaign.$i.log 2>&1 & done
wait
cat /tmp/seeded_campaign.[0-9]*.log
