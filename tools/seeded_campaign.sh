#!/bin/bash
# Runs every seeded change (seeded/*/patch.diff) against the quick check of its own property.
N=${1:-2}
cd "$(dirname "$0")/.."
for d in seeded/*/; do
  pid=$(python3 -c "import json;print(json.load(open('$d/meta.json'))['property'])")
  echo "=== $d $pid"
  tools/mutate.py --scratch $N $d/patch.diff $pid 2>&1 | grep -E "RESULT|signature|VACUOUS|INCONCLUSIVE|does not apply" | cut -c1-200
done
