#!/bin/bash
# Runs every mutant of notes/mutants.json against the quick check of its own property
# (scratch worktree, never /repo). Usage: tools/campaign.sh [scratch-number] [filter-regex]
N=${1:-1}; F=${2:-.}
cd "$(dirname "$0")/.."
python3 - "$F" <<'PY' > /tmp/campaign_list_$N.txt
import json,sys,re
d=json.load(open('notes/mutants.json'))
for m in d['valid']:
    if re.search(sys.argv[1], m['id']): print(m['id'], m['property'])
PY
while read id prop; do
  tools/mutate.py --scratch $N $id $prop
done < /tmp/campaign_list_$N.txt
