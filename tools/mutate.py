#!/usr/bin/env python3
"""Apply one mutant from notes/mutants.json (or a patch file) to /repo, run checks, restore /repo.

  tools/mutate.py <mutant-id|patch.diff> <ID>[:tier] [<ID>...]

Never leaves /repo dirty: the working tree is restored with `git checkout -- .` even on error.
"""
import json, os, subprocess, sys
ROOT = os.path.dirname(os.path.dirname(os.path.abspath(__file__)))

def main():
    mid = sys.argv[1]
    checks = sys.argv[2:]
    st = subprocess.run(["git", "-C", "/repo", "status", "--porcelain"], stdout=subprocess.PIPE, text=True).stdout.strip()
    if st:
        print("refusing: /repo is dirty:\n" + st); return 2
    try:
        if os.path.exists(mid):
            r = subprocess.run(["git", "-C", "/repo", "apply", os.path.abspath(mid)])
            if r.returncode != 0:
                print("patch does not apply"); return 2
        else:
            d = json.load(open(os.path.join(ROOT, "notes", "mutants.json")))
            m = [x for x in d["valid"] if x["id"] == mid]
            if not m:
                print("unknown mutant", mid); return 2
            for e in m[0]["edits"]:
                p = os.path.join("/repo", e["file"]); s = open(p).read()
                if s.count(e["old"]) != 1:
                    print("edit does not apply uniquely in", e["file"], s.count(e["old"])); return 2
                open(p, "w").write(s.replace(e["old"], e["new"]))
            print("applied", mid, "-", m[0]["note"])
        rc_all = {}
        for c in checks:
            pid, _, tier = c.partition(":")
            env = dict(os.environ)
            p = subprocess.run([os.path.join(ROOT, "check"), pid, tier or "quick"], stdout=subprocess.PIPE, stderr=subprocess.STDOUT, text=True, env=env)
            lines = p.stdout.strip().splitlines()
            v = [l for l in lines if l.startswith("VIOLATION") or l.startswith("  signature")]
            print("== %s rc=%d" % (c, p.returncode)); print("\n".join(v[:12])); print(lines[-1] if lines else "")
            rc_all[c] = p.returncode
        print("RESULT", mid, rc_all)
    finally:
        subprocess.run(["git", "-C", "/repo", "checkout", "--", "."])
    return 0

sys.exit(main())
