#!/usr/bin/env python3
"""Run checks against a mutated copy of deltio, in a scratch area outside /repo and /verif.

  tools/mutate.py [--scratch N] <mutant-id|patch.diff> <ID>[:tier] [<ID>...]
  tools/mutate.py [--scratch N] --clean

The scratch area /tmp/mutwork<N> holds a git worktree of /repo (at /repo's HEAD) and a copy
of /verif whose harness path-depends on that worktree, so /repo itself is never touched and
work in /verif can go on while this runs. `--clean` removes the worktree and the build output.
"""
import json
import os
import shutil
import subprocess
import sys

ROOT = os.path.dirname(os.path.dirname(os.path.abspath(__file__)))


def sh(*a, **kw):
    return subprocess.run(list(a), stdout=subprocess.PIPE, stderr=subprocess.STDOUT, text=True, **kw)


def main():
    args = sys.argv[1:]
    n = "0"
    if args and args[0] == "--scratch":
        n = args[1]
        args = args[2:]
    base = "/tmp/mutwork%s" % n
    srepo, sverif = base + "/repo", base + "/verif"
    if args and args[0] == "--clean":
        sh("git", "-C", "/repo", "worktree", "remove", "--force", srepo)
        shutil.rmtree(base, ignore_errors=True)
        sh("git", "-C", "/repo", "worktree", "prune")
        print("removed", base)
        return 0
    mid, checks = args[0], args[1:]
    os.makedirs(base, exist_ok=True)
    head = sh("git", "-C", "/repo", "rev-parse", "HEAD").stdout.strip()
    if not os.path.exists(srepo):
        r = sh("git", "-C", "/repo", "worktree", "add", "--detach", srepo, head)
        if r.returncode != 0:
            print(r.stdout)
            return 2
    else:
        sh("git", "-C", srepo, "checkout", "--", ".")
        sh("git", "-C", srepo, "checkout", "--detach", head)
    os.makedirs(sverif, exist_ok=True)
    sh("rsync", "-a", "--delete", "--exclude", "target*", "--exclude", ".work", "--exclude", "replays", "--exclude", ".git",
       "--exclude", "evidence", ROOT + "/", sverif + "/")
    for f in ("harness/Cargo.toml",):
        p = os.path.join(sverif, f)
        s = open(p).read().replace('path = "/repo"', 'path = "%s"' % srepo)
        open(p, "w").write(s)
    try:
        if os.path.exists(mid):
            r = sh("git", "-C", srepo, "apply", os.path.abspath(mid))
            if r.returncode != 0:
                # written against an earlier HEAD: try a three-way merge before giving up
                sh("git", "-C", srepo, "checkout", "--", ".")
                r = sh("git", "-C", srepo, "apply", "-3", os.path.abspath(mid))
                sh("git", "-C", srepo, "reset", "-q")
            if r.returncode != 0:
                print("patch does not apply\n" + r.stdout)
                return 2
            print("applied patch", mid)
        else:
            d = json.load(open(os.path.join(ROOT, "notes", "mutants.json")))
            m = [x for x in d["valid"] if x["id"] == mid]
            if not m:
                print("unknown mutant", mid)
                return 2
            for e in m[0]["edits"]:
                p = os.path.join(srepo, e["file"])
                s = open(p).read()
                if s.count(e["old"]) != 1:
                    print("edit does not apply uniquely in", e["file"], s.count(e["old"]))
                    return 2
                open(p, "w").write(s.replace(e["old"], e["new"]))
            print("applied", mid, "-", m[0]["note"])
        rc_all = {}
        for c in checks:
            pid, _, tier = c.partition(":")
            p = sh(os.path.join(sverif, "check"), pid, tier or "quick")
            lines = p.stdout.strip().splitlines()
            v = [l for l in lines if l.startswith(("VIOLATION", "  signature", "KNOWN", "VACUOUS", "BUILD-FAILED", "INCONCLUSIVE"))]
            print("== %s rc=%d" % (c, p.returncode))
            print("\n".join(x[:200] for x in v[:14]))
            print(lines[-1][:300] if lines else "")
            rc_all[c] = p.returncode
        print("RESULT", os.path.basename(mid), rc_all)
    finally:
        sh("git", "-C", srepo, "checkout", "--", ".")
    return 0


sys.exit(main())
