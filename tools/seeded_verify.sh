#!/bin/bash
# Confirms a sub-agent's seeded change independently in a scratch worktree under /tmp:
#   tools/seeded_verify.sh <ID> <dir with patch.diff and a *demo*.rs>
# prints: applies / existing tests pass / demo fails with change / demo passes without change
ID=$1; SRC=$2; W=/tmp/seedverify_$ID
git -C /repo worktree remove --force $W >/dev/null 2>&1; rm -rf $W
git -C /repo worktree add --detach $W HEAD -q || exit 2
cd $W
DEMO=$(ls $SRC/*demo*.rs | head -1); cp $DEMO tests/
NAME=$(basename $DEMO .rs)
echo "demo without change:"; cargo test --offline --test $NAME 2>&1 | grep -E "^test result|error\[" | head -3
git apply $SRC/patch.diff 2>/dev/null || { git checkout -- . ; git apply -3 $SRC/patch.diff && git reset -q; } ; if git diff --quiet; then echo "PATCH DOES NOT APPLY"; exit 2; else echo "patch applies"; fi
rm tests/$NAME.rs
echo "existing suite with change:"; cargo test --workspace --no-fail-fast --offline 2>&1 | grep -E "^test result" | awk '{p+=$4; f+=$6} END {print p" passed, "f" failed"}'
cp $DEMO tests/
echo "demo with change:"; cargo test --offline --test $NAME 2>&1 | grep -E "^test result|error\[" | head -3
cd /; git -C /repo worktree remove --force $W; rm -f /tmp/*.sock
