//! Stand-in for the `mimalloc` crate: forwards to the system allocator so that
//! AddressSanitizer, valgrind and Miri can observe every allocation of the
//! monitored process. Used only by the verification harness via [patch].
use std::alloc::{GlobalAlloc, Layout, System};

pub struct MiMalloc;

unsafe impl GlobalAlloc for MiMalloc {
    #[inline]
    unsafe fn alloc(&self, layout: Layout) -> *mut u8 {
        System.alloc(layout)
    }
    #[inline]
    unsafe fn dealloc(&self, ptr: *mut u8, layout: Layout) {
        System.dealloc(ptr, layout)
    }
    #[inline]
    unsafe fn alloc_zeroed(&self, layout: Layout) -> *mut u8 {
        System.alloc_zeroed(layout)
    }
    #[inline]
    unsafe fn realloc(&self, ptr: *mut u8, layout: Layout, new_size: usize) -> *mut u8 {
        System.realloc(ptr, layout, new_size)
    }
}
