//! SplitMix64: tiny, seedable, good enough for workload generation.

#[derive(Clone, Debug)]
pub struct Rng(pub u64);

impl Rng {
    pub fn new(seed: u64) -> Self {
        let mut r = Rng(seed ^ 0xD1B5_4A32_D192_ED03);
        r.next();
        r
    }

    /// Derives an independent stream.
    pub fn fork(&mut self, salt: u64) -> Rng {
        Rng::new(self.next() ^ salt.wrapping_mul(0x9E37_79B9_7F4A_7C15))
    }

    pub fn next(&mut self) -> u64 {
        self.0 = self.0.wrapping_add(0x9E37_79B9_7F4A_7C15);
        let mut z = self.0;
        z = (z ^ (z >> 30)).wrapping_mul(0xBF58_476D_1CE4_E5B9);
        z = (z ^ (z >> 27)).wrapping_mul(0x94D0_49BB_1331_11EB);
        z ^ (z >> 31)
    }

    /// Uniform in 0..n (n > 0).
    pub fn below(&mut self, n: u64) -> u64 {
        debug_assert!(n > 0);
        self.next() % n
    }

    /// Uniform in lo..=hi.
    pub fn range(&mut self, lo: u64, hi: u64) -> u64 {
        lo + self.below(hi - lo + 1)
    }

    pub fn chance(&mut self, num: u64, den: u64) -> bool {
        self.below(den) < num
    }

    pub fn pick<'a, T>(&mut self, xs: &'a [T]) -> &'a T {
        &xs[self.below(xs.len() as u64) as usize]
    }

    pub fn shuffle<T>(&mut self, xs: &mut [T]) {
        for i in (1..xs.len()).rev() {
            let j = self.below(i as u64 + 1) as usize;
            xs.swap(i, j);
        }
    }
}

/// FNV-1a, used for signature hashing (stable across runs, unlike `DefaultHasher` seeds).
pub fn fnv(bytes: &[u8]) -> u64 {
    let mut h: u64 = 0xcbf2_9ce4_8422_2325;
    for b in bytes {
        h ^= *b as u64;
        h = h.wrapping_mul(0x0000_0100_0000_01B3);
    }
    h
}

pub fn fnv_str(s: &str) -> u64 {
    fnv(s.as_bytes())
}
