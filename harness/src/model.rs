//! RefModel — the exact, observation-driven reference model for sequential
//! histories (DESIGN 3.2, Appendix B.3).
//!
//! The model checks that a response is *admissible* and then updates itself from
//! what was observed, so implementation freedom (which subset a short pull
//! returns, where redeliveries are interleaved) never raises an alarm.

use crate::rec::*;
use std::collections::{BTreeMap, BTreeSet, HashSet, VecDeque};

/// The property's "fixed sub-second slack".
pub const SLACK_SPEC: u64 = 999 * MS;

#[derive(Clone, Debug)]
pub struct Lease {
    pub tag: String,
    /// The exact deadline D (earliest instant the lease may end).
    pub lo: Vt,
    /// D + SLACK_SPEC (latest instant at which it must have ended).
    pub hi: Vt,
    /// How the current deadline came about: "pull" or "modify".
    pub cause: &'static str,
    /// Hand-out instant.
    pub handed: Vt,
}

#[derive(Clone, Debug, Default)]
pub struct MSub {
    pub name: String,
    pub topic: String,
    pub topic_inc: u64,
    pub topic_deleted: bool,
    pub deadline_s: u64,
    pub requested_deadline_s: i32,
    pub push_endpoint: Option<String>,
    pub fresh: VecDeque<String>,
    /// Available again; value = how it got there ("nack", "expiry").
    pub requeued: BTreeMap<String, &'static str>,
    pub leases: BTreeMap<String, Lease>,
    pub acked: BTreeSet<String>,
    pub uncertain: BTreeSet<String>,
    pub used_ack_ids: HashSet<String>,
    /// Number of deliveries per tag (for "delivered >= n times" evidence).
    pub delivered: BTreeMap<String, u32>,
}

#[derive(Clone, Debug)]
pub struct MTopic {
    pub name: String,
    pub inc: u64,
    pub last_id: Option<u128>,
}

#[derive(Clone, Debug)]
pub struct Found {
    pub property: &'static str,
    pub sig: String,
    pub detail: String,
    /// Findings of one observed event (one response, one stats comparison) share a group.
    pub group: u64,
}

#[derive(Default)]
pub struct Model {
    pub topics: BTreeMap<String, MTopic>,
    pub subs: BTreeMap<String, MSub>,
    /// Live topics / subscriptions in creation order.
    pub topic_order: Vec<String>,
    pub sub_order: Vec<String>,
    next_inc: u64,
    pub found: Vec<Found>,
    pub in_window_steps: u64,
    pub expiries_crossed: u64,
    pub all_ids: BTreeMap<String, String>, // message id -> tag (global uniqueness)
    pub event: u64,
}

pub fn effective_deadline(requested: i32) -> u64 {
    if requested <= 10 {
        10
    } else {
        requested as u64
    }
}

impl Model {
    pub fn new() -> Self {
        Self::default()
    }

    fn flag(&mut self, property: &'static str, sig: impl Into<String>, detail: impl Into<String>) {
        self.found.push(Found {
            property,
            sig: sig.into(),
            detail: detail.into(),
            group: self.event,
        });
    }

    // ---- control plane -----------------------------------------------------------------------

    pub fn create_topic(&mut self, name: &str) {
        self.next_inc += 1;
        self.topics.insert(
            name.to_string(),
            MTopic {
                name: name.to_string(),
                inc: self.next_inc,
                last_id: None,
            },
        );
        self.topic_order.push(name.to_string());
    }

    pub fn delete_topic(&mut self, name: &str) {
        if let Some(t) = self.topics.remove(name) {
            self.topic_order.retain(|n| n != name);
            for s in self.subs.values_mut() {
                if s.topic == name && s.topic_inc == t.inc {
                    s.topic_deleted = true;
                }
            }
        }
    }

    pub fn create_sub(&mut self, name: &str, topic: &str, requested_deadline: i32, push: Option<String>) {
        let inc = self.topics.get(topic).map(|t| t.inc).unwrap_or(0);
        self.subs.insert(
            name.to_string(),
            MSub {
                name: name.to_string(),
                topic: topic.to_string(),
                topic_inc: inc,
                deadline_s: effective_deadline(requested_deadline),
                requested_deadline_s: requested_deadline,
                push_endpoint: push,
                ..Default::default()
            },
        );
        self.sub_order.push(name.to_string());
    }

    pub fn delete_sub(&mut self, name: &str) {
        self.subs.remove(name);
        self.sub_order.retain(|n| n != name);
    }

    /// Subscriptions currently attached to the live topic `name`, in creation order.
    pub fn attached(&self, topic: &str) -> Vec<String> {
        let Some(t) = self.topics.get(topic) else { return vec![] };
        self.sub_order
            .iter()
            .filter(|s| {
                let s = &self.subs[*s];
                s.topic == topic && s.topic_inc == t.inc && !s.topic_deleted
            })
            .cloned()
            .collect()
    }

    pub fn topics_in_project(&self, project: &str) -> Vec<String> {
        let prefix = format!("{}/topics/", project);
        self.topic_order.iter().filter(|n| n.starts_with(&prefix)).cloned().collect()
    }

    pub fn subs_in_project(&self, project: &str) -> Vec<String> {
        let prefix = format!("{}/subscriptions/", project);
        self.sub_order.iter().filter(|n| n.starts_with(&prefix)).cloned().collect()
    }

    // ---- data plane ----------------------------------------------------------------------------

    /// A Publish returned `ids` for `tags` on `topic`.
    pub fn published(&mut self, topic: &str, tags: &[String], ids: &[String]) {
        self.event += 1;
        if ids.len() != tags.len() {
            self.flag("C08", "C08:ids-length", format!("Publish of {} messages returned {} ids", tags.len(), ids.len()));
        }
        let mut last = self.topics.get(topic).and_then(|t| t.last_id);
        for (i, id) in ids.iter().enumerate() {
            match id.parse::<u128>() {
                Ok(v) => {
                    if let Some(l) = last {
                        if v <= l {
                            self.flag("C08", "C08:ids-not-increasing", format!("topic {} issued id {} after {}", short(topic), v, l));
                        }
                    }
                    last = Some(v);
                }
                Err(_) => {}
            }
            if let Some(tag) = tags.get(i) {
                if let Some(prev) = self.all_ids.get(id) {
                    if prev != tag {
                        self.flag("C09", "C09:I1:id-reused", format!("message id {} issued for {} and for {}", id, prev, tag));
                    }
                }
                self.all_ids.insert(id.clone(), tag.clone());
            }
        }
        if let Some(t) = self.topics.get_mut(topic) {
            t.last_id = last;
        }
        for s in self.attached(topic) {
            let sub = self.subs.get_mut(&s).unwrap();
            for t in tags {
                sub.fresh.push_back(t.clone());
            }
        }
    }

    /// Moves leases that have certainly expired by `now` back to the queue.
    pub fn advance(&mut self, now: Vt) {
        for s in self.subs.values_mut() {
            let expired: Vec<String> = s.leases.iter().filter(|(_, l)| l.hi < now).map(|(k, _)| k.clone()).collect();
            for k in expired {
                let l = s.leases.remove(&k).unwrap();
                // (a lease whose deadline was set by a modification: its expiry is C05's business too)
                s.requeued.insert(l.tag, if l.cause == "modify" { "expiry-after-modify" } else { "expiry" });
                self.expiries_crossed += 1;
            }
        }
    }

    pub fn has_in_window(&self, sub: &str, now: Vt) -> bool {
        self.subs.get(sub).map(|s| s.leases.values().any(|l| l.lo <= now)).unwrap_or(false)
    }

    pub fn certain_count(&self, sub: &str) -> usize {
        self.subs.get(sub).map(|s| s.fresh.len() + s.requeued.len()).unwrap_or(0)
    }

    /// Earliest instant >= `from` at which a message is certainly available.
    pub fn earliest_certain(&self, sub: &str, from: Vt) -> Option<Vt> {
        let s = self.subs.get(sub)?;
        if !s.fresh.is_empty() || !s.requeued.is_empty() {
            return Some(from);
        }
        s.leases.values().map(|l| l.hi + 1).min().map(|t| t.max(from))
    }

    /// Checks a pull-like response and leases what was observed.
    /// `max`: batch limit if positive. `t_call`/`now`: call and return instants.
    #[allow(clippy::too_many_arguments)]
    pub fn pulled(&mut self, sub: &str, items: &[(String, String, String)], max: i64, blocking: bool, t_call: Vt, now: Vt, via: Via) {
        self.event += 1;
        // the state at call time decides what a blocking pull owed us
        let owed_at = if blocking { self.earliest_certain(sub, t_call) } else { None };
        let certain_at_call = self.certain_count(sub);
        self.advance(now);
        let Some(s) = self.subs.get(sub) else { return };
        let a = s.deadline_s * SEC;
        if max >= 1 && items.len() as i64 > max {
            self.flag("C15", format!("C15:over-limit:{:?}", via), format!("{} messages returned with a limit of {}", items.len(), max));
        }
        if via == Via::Pull {
            let late_by = owed_at.map(|t| now.saturating_sub(t)).unwrap_or(0);
            if blocking && late_by > MS {
                // a message was certainly available at `owed_at` and the blocked pull kept waiting
                if certain_at_call > 0 {
                    self.flag("C15", "C15:blocking-pull-not-immediate", format!("blocking Pull with {} message(s) available returned only {} ms later", certain_at_call, late_by / MS));
                } else {
                    self.flag("C04", "C04:late:blocked-pull-woken-late", format!("a blocked Pull on {} got its message {} ms after the latest admissible expiry instant", short(sub), late_by / MS));
                }
            }
            if items.is_empty() {
                if blocking && now.saturating_sub(t_call) < 300 * SEC {
                    self.flag("C15", "C15:empty-blocking-pull", format!("blocking Pull returned empty after {} ms", (now - t_call) / MS));
                }
                if !blocking && certain_at_call > 0 {
                    let s = self.subs.get(sub).unwrap();
                    let why = s.requeued.values().next().copied().unwrap_or("fresh");
                    if why == "expiry-after-modify" {
                        self.flag("C05", "C05:late-after-modify:expired-message-unavailable", format!("Pull(return_immediately) returned nothing although the modified deadline of a delivery on {} has passed", short(sub)));
                    }
                    let (p, sig) = match why {
                        "expiry" | "expiry-after-modify" => ("C04", "C04:late:expired-message-unavailable"),
                        "nack" => ("C05", "C05:nack-not-available"),
                        _ => ("C01", "C01:available-message-not-returned"),
                    };
                    let d = format!("Pull(return_immediately) returned nothing although {} message(s) were available on {}", certain_at_call, short(sub));
                    if p != "C01" {
                        // whatever made it unavailable, an unacknowledged message is not being redelivered
                        self.flag("C01", "C01:unacked-message-not-redelivered", d.clone());
                    }
                    self.flag(p, sig, d);
                }
            }
        }
        let mut seen_tags = BTreeSet::new();
        let mut seen_acks = BTreeSet::new();
        let mut fresh_seen: Vec<String> = Vec::new();
        // indexes over the state before this response (each tag is handled once)
        let (fresh_set, lease_by_tag): (HashSet<String>, std::collections::HashMap<String, String>) = {
            let s = self.subs.get(sub).unwrap();
            if items.len() > 8 {
                (s.fresh.iter().cloned().collect(), s.leases.iter().map(|(k, l)| (l.tag.clone(), k.clone())).collect())
            } else {
                (HashSet::new(), std::collections::HashMap::new())
            }
        };
        let indexed = items.len() > 8;
        for (ack_id, tag, _msg_id) in items {
            let s = self.subs.get(sub).unwrap();
            if !seen_acks.insert(ack_id.clone()) || s.used_ack_ids.contains(ack_id) {
                self.flag("C03", "C03:X1:ack-id-reused", format!("ack id {:?} was used before on {}", ack_id, short(sub)));
                // seen from C02: a stale ID that is issued again is no longer without effect when acknowledged
                self.flag("C02", "C02:stale-ack-id-reissued", format!("ack id {:?} of an earlier delivery on {} was issued again for another delivery: acknowledging the stale ID would now hit that delivery", ack_id, short(sub)));
            }
            if !seen_tags.insert(tag.clone()) {
                self.flag("C03", "C03:X2:duplicate-in-response", format!("message {} twice in one response", tag));
                continue;
            }
            let s = self.subs.get(sub).unwrap();
            let in_fresh = if indexed { fresh_set.contains(tag) } else { s.fresh.contains(tag) };
            let in_req = s.requeued.contains_key(tag);
            let in_unc = s.uncertain.contains(tag);
            let lease_key = if indexed {
                lease_by_tag.get(tag).and_then(|k| s.leases.get(k).map(|l| (k.clone(), l.clone())))
            } else {
                s.leases.iter().find(|(_, l)| l.tag == *tag).map(|(k, l)| (k.clone(), l.clone()))
            };
            if in_fresh {
                fresh_seen.push(tag.clone());
            } else if in_req || in_unc {
            } else if let Some((_, l)) = &lease_key {
                if now < l.lo {
                    let early_ms = (l.lo - now) / MS;
                    if l.cause == "modify" {
                        self.flag("C05", "C05:early-after-modify", format!("{} redelivered {} ms before its modified deadline", tag, early_ms));
                    } else {
                        self.flag("C04", "C04:early", format!("{} redelivered {} ms before its ack deadline ({} s after hand-out at {} ms)", tag, early_ms, s.deadline_s, l.handed / MS));
                    }
                    self.flag("C03", "C03:X3:lease-overlap", format!("{} handed out again while its lease had {} ms left", tag, early_ms));
                }
            } else if s.acked.contains(tag) {
                self.flag("C02", "C02:redelivered-after-ack", format!("{} delivered on {} after its acknowledgement had returned", tag, short(sub)));
            } else {
                self.flag("C01", "C01:S1:spurious-delivery", format!("{} delivered on {} which should never have received it", tag, short(sub)));
            }
            // lease what was observed
            let s = self.subs.get_mut(sub).unwrap();
            if in_fresh {
                // removed below (prefix rule)
            }
            s.requeued.remove(tag);
            s.uncertain.remove(tag);
            if let Some((k, _)) = lease_key {
                s.leases.remove(&k);
            }
            s.used_ack_ids.insert(ack_id.clone());
            *s.delivered.entry(tag.clone()).or_insert(0) += 1;
            s.leases.insert(
                ack_id.clone(),
                Lease {
                    tag: tag.clone(),
                    lo: now + a,
                    hi: now + a + SLACK_SPEC,
                    cause: "pull",
                    handed: now,
                },
            );
        }
        // first deliveries come in acceptance order: the fresh ones seen are a prefix of `fresh`
        let s = self.subs.get_mut(sub).unwrap();
        let prefix: Vec<String> = s.fresh.iter().take(fresh_seen.len()).cloned().collect();
        if prefix != fresh_seen {
            let d = format!("first deliveries {:?} but acceptance order is {:?}", fresh_seen.iter().take(12).collect::<Vec<_>>(), prefix.iter().take(12).collect::<Vec<_>>());
            let gone: HashSet<&String> = fresh_seen.iter().collect();
            s.fresh.retain(|t| !gone.contains(t));
            self.flag("C08", "C08:O1:first-delivery-order", d);
        } else {
            for _ in 0..fresh_seen.len() {
                s.fresh.pop_front();
            }
        }
    }

    /// An Acknowledge for `ids` returned OK at `now`.
    pub fn acked(&mut self, sub: &str, ids: &[String], now: Vt) {
        self.advance(now);
        let Some(s) = self.subs.get_mut(sub) else { return };
        for id in ids {
            let canon = canonical_ack_id(id);
            if let Some(l) = s.leases.get(&canon).cloned() {
                s.leases.remove(&canon);
                if now < l.lo {
                    s.acked.insert(l.tag);
                } else {
                    s.uncertain.insert(l.tag);
                }
            }
        }
    }

    /// A ModifyAckDeadline(ids, secs >= 0) returned OK at `now`.
    pub fn modified(&mut self, sub: &str, ids: &[String], secs: i32, now: Vt) {
        self.advance(now);
        let Some(s) = self.subs.get_mut(sub) else { return };
        for id in ids {
            let canon = canonical_ack_id(id);
            if let Some(l) = s.leases.get(&canon).cloned() {
                if secs == 0 {
                    // either it had just expired or it is nacked now: available in both cases
                    s.leases.remove(&canon);
                    s.requeued.insert(l.tag, "nack");
                } else if now < l.lo {
                    let n = (secs as u64).min(600) * SEC;
                    s.leases.insert(
                        canon,
                        Lease {
                            tag: l.tag,
                            lo: now + n,
                            hi: now + n + SLACK_SPEC,
                            cause: "modify",
                            handed: l.handed,
                        },
                    );
                } else {
                    s.leases.remove(&canon);
                    s.uncertain.insert(l.tag);
                }
            }
        }
    }

    /// Compares hook stats with the model for every subscription that has no
    /// lease in its expiry window and nothing uncertain.
    pub fn check_stats(&mut self, now: Vt, stats: &BTreeMap<String, SubStat>, after: &str) {
        self.event += 1;
        self.advance(now);
        let names: Vec<String> = self.subs.keys().cloned().collect();
        for n in names {
            let s = self.subs[&n].clone();
            if s.push_endpoint.is_some() {
                continue;
            }
            if !s.uncertain.is_empty() || s.leases.values().any(|l| l.lo <= now) {
                self.in_window_steps += 1;
                continue;
            }
            let want = (s.leases.len(), s.fresh.len() + s.requeued.len());
            match stats.get(&n) {
                Some(st) => {
                    if (st.outstanding, st.backlog) != want {
                        let (p, sig) = match after {
                            "Ack" => ("C02", "C02:ack-changed-other-state"),
                            "Modify" | "Nack" => ("C05", "C05:modify-changed-other-state"),
                            "Rejected" => ("C17", "C17:rejected-request-changed-state"),
                            "Advance" => ("C04", "C04:expiry-accounting"),
                            _ => ("C03", "C03:conservation"),
                        };
                        let d = format!("after {}: {} has (outstanding, backlog) = ({}, {}), model says ({}, {})", after, short(&n), st.outstanding, st.backlog, want.0, want.1);
                        if after == "Advance" && st.backlog < want.1 {
                            // fewer messages available than have certainly passed their deadline: an
                            // unacknowledged message has not been made available for redelivery
                            self.flag("C01", "C01:unacked-message-not-redelivered", d.clone());
                        }
                        if after == "Advance" && s.requeued.values().any(|c| *c == "expiry-after-modify") {
                            // a delivery whose deadline had been set by ModifyAckDeadline has not expired on time
                            self.flag("C05", "C05:late-after-modify:expiry-accounting", d.clone());
                        }
                        if after == "AckModify" {
                            // one control message carried acks and modifications: either half may be at fault
                            self.flag("C02", "C02:ack-changed-other-state", d.clone());
                            self.flag("C05", "C05:modify-changed-other-state", d);
                        } else {
                            self.flag(p, sig, d);
                        }
                    }
                    let want_topic = if s.topic_deleted { "projects//topics/_deleted_topic_".to_string() } else { s.topic.clone() };
                    if st.topic != want_topic {
                        let d = format!("{} reports topic {:?}, expected {:?}", short(&n), st.topic, want_topic);
                        self.flag("C11", "C11:topic-of-subscription", d);
                    }
                }
                None => {
                    let d = format!("{} does not answer get_stats", short(&n));
                    self.flag("C07", "C07:stats-unavailable", d);
                }
            }
        }
    }
}

/// Ack IDs are decimal; "+1" and "007" parse to the same delivery as "1" / "7".
pub fn canonical_ack_id(id: &str) -> String {
    match id.parse::<u64>() {
        Ok(v) => v.to_string(),
        Err(_) => id.to_string(),
    }
}
