//! SEQ driver: one operation at a time against the real services, each checked
//! against the exact reference model (DESIGN 3.1 "SEQ", Appendix B.3).

use crate::client::*;
use crate::model::*;
use crate::rec::*;
use crate::report::*;
use crate::world::*;
use std::collections::BTreeMap;
use std::sync::Arc;
use std::time::Duration;
use tonic::Status;

pub struct Seq {
    pub w: Arc<World>,
    pub cx: Cx,
    pub m: Model,
    pub next_tag: u64,
    pub steps: Vec<String>,
    /// Open streams, per subscription (at most one each in SEQ episodes).
    pub streams: BTreeMap<String, StreamHandle>,
    stream_seen: BTreeMap<String, usize>,
    pub check_stats_every_step: bool,
    pub settle_each_step: bool,
    pub unexpected_status: Vec<Found>,
    /// The first divergence between model and server has been reported already.
    flushed_findings: bool,
}

pub const OKC: i32 = 0;

impl Seq {
    pub fn new(w: &Arc<World>) -> Seq {
        Seq {
            w: Arc::clone(w),
            cx: Cx::new(w, 0),
            m: Model::new(),
            next_tag: 0,
            steps: Vec::new(),
            streams: BTreeMap::new(),
            stream_seen: BTreeMap::new(),
            check_stats_every_step: true,
            settle_each_step: true,
            unexpected_status: Vec::new(),
            flushed_findings: false,
        }
    }

    pub fn now(&self) -> Vt {
        self.w.vt()
    }

    fn expect(&mut self, what: &str, got: i32, want: &[i32], property: &'static str) -> bool {
        if want.contains(&got) {
            true
        } else {
            self.unexpected_status.push(Found {
                property,
                sig: format!("{}:status:{}:got={}", property, what, got),
                detail: format!("{} answered status {} where {:?} was expected", what, got, want),
                group: 0,
            });
            false
        }
    }

    fn code<T>(r: &Result<T, Status>) -> i32 {
        match r {
            Ok(_) => 0,
            Err(s) => s.code() as i32,
        }
    }

    pub async fn after_step(&mut self, kind: &str) {
        if self.settle_each_step {
            self.w.settle().await;
        } else {
            // no time passes, but everything runnable runs (stream readers, actors)
            self.w.barrier().await;
        }
        self.drain_streams();
        if self.check_stats_every_step {
            self.check_stats(kind).await;
        }
    }

    pub async fn check_stats(&mut self, after: &str) {
        let names: Vec<String> = self.m.subs.keys().cloned().collect();
        let mut stats = BTreeMap::new();
        for n in &names {
            if let Some(st) = self.w.stats(n).await {
                stats.insert(n.clone(), st);
            }
        }
        let now = self.now();
        self.m.check_stats(now, &stats, after);
    }

    // ---- control plane ---------------------------------------------------------------------------

    pub async fn create_topic(&mut self, name: &str) -> i32 {
        let exists = self.m.topics.contains_key(name);
        let r = self.cx.create_topic(name).await;
        let c = Self::code(&r);
        self.steps.push(format!("create_topic({})={}", short(name), c));
        if self.expect("CreateTopic", c, if exists { &[6] } else { &[0] }, "C10") && c == 0 {
            self.m.create_topic(name);
        }
        self.after_step("CreateTopic").await;
        c
    }

    pub async fn delete_topic(&mut self, name: &str) -> i32 {
        let exists = self.m.topics.contains_key(name);
        let r = self.cx.delete_topic(name).await;
        let c = Self::code(&r);
        self.steps.push(format!("delete_topic({})={}", short(name), c));
        if self.expect("DeleteTopic", c, if exists { &[0] } else { &[5] }, "C10") && c == 0 {
            self.m.delete_topic(name);
        }
        self.after_step("DeleteTopic").await;
        c
    }

    pub async fn create_sub(&mut self, name: &str, topic: &str, deadline: i32) -> i32 {
        let topic_exists = self.m.topics.contains_key(topic);
        let exists = self.m.subs.contains_key(name);
        let same_project = name.split('/').nth(1) == topic.split('/').nth(1);
        let r = self.cx.create_sub(name, topic, deadline).await;
        let c = Self::code(&r);
        self.steps.push(format!("create_sub({},{},{})={}", short(name), short(topic), deadline, c));
        let want: &[i32] = if !topic_exists {
            &[5]
        } else if !same_project {
            &[3]
        } else if exists {
            &[6]
        } else {
            &[0]
        };
        if self.expect("CreateSubscription", c, want, "C10") && c == 0 {
            self.m.create_sub(name, topic, deadline, None);
            if let Ok(v) = &r {
                let want_dl = effective_deadline(deadline) as i32;
                if v.name != name || v.topic != topic || v.deadline_s != want_dl {
                    self.unexpected_status.push(Found {
                        property: "C10",
                        sig: "C10:create-echo".into(),
                        detail: format!("CreateSubscription echoed {:?}, expected name {} topic {} deadline {}", v, name, topic, want_dl),
                        group: 0,
                    });
                }
            }
        }
        self.after_step("CreateSub").await;
        c
    }

    pub async fn delete_sub(&mut self, name: &str) -> i32 {
        let exists = self.m.subs.contains_key(name);
        let r = self.cx.delete_sub(name).await;
        let c = Self::code(&r);
        self.steps.push(format!("delete_sub({})={}", short(name), c));
        if self.expect("DeleteSubscription", c, if exists { &[0] } else { &[5] }, "C10") && c == 0 {
            self.m.delete_sub(name);
            self.streams.remove(name);
        }
        self.after_step("DeleteSub").await;
        c
    }

    // ---- data plane ----------------------------------------------------------------------------

    pub fn fresh_msgs(&mut self, n: usize) -> Vec<Msg> {
        (0..n)
            .map(|_| {
                self.next_tag += 1;
                Msg::tagged(&format!("m{}", self.next_tag))
            })
            .collect()
    }

    pub async fn publish(&mut self, topic: &str, n: usize) -> Vec<String> {
        let msgs = self.fresh_msgs(n);
        self.publish_msgs(topic, &msgs).await
    }

    pub async fn publish_msgs(&mut self, topic: &str, msgs: &[Msg]) -> Vec<String> {
        let exists = self.m.topics.contains_key(topic);
        let r = self.cx.publish(topic, msgs).await;
        let c = Self::code(&r);
        let tags: Vec<String> = msgs.iter().map(|m| m.tag.clone()).collect();
        self.steps.push(format!("publish({},{:?})={}", short(topic), tags, c));
        if self.expect("Publish", c, if exists { &[0] } else { &[5] }, "C10") {
            if let Ok(ids) = &r {
                self.m.published(topic, &tags, ids);
            }
        }
        self.after_step("Publish").await;
        tags
    }

    pub async fn pull(&mut self, sub: &str, max: i32, ri: bool) -> Vec<Delivery> {
        let exists = self.m.subs.contains_key(sub);
        let t_call = self.now();
        let r = self.cx.pull(sub, max, ri).await;
        let now = self.now();
        let c = Self::code(&r);
        let ds = r.unwrap_or_default();
        self.steps.push(format!("pull({},{},{})={}:{:?}@{}ms", short(sub), max, ri, c, ds.iter().map(|d| format!("{}/{}", d.tag, d.ack_id)).collect::<Vec<_>>(), now / MS));
        if self.expect("Pull", c, if exists { &[0] } else { &[5] }, "C10") && c == 0 {
            // stream deliveries that happened meanwhile come first (they are earlier in time)
            self.drain_streams();
            let items: Vec<(String, String, String)> = ds.iter().map(|d| (d.ack_id.clone(), d.tag.clone(), d.msg_id.clone())).collect();
            self.m.pulled(sub, &items, max as i64, !ri, t_call, now, Via::Pull);
        }
        self.after_step("Pull").await;
        ds
    }

    pub async fn ack(&mut self, sub: &str, ids: &[String]) -> i32 {
        let exists = self.m.subs.contains_key(sub);
        let malformed = ids.iter().any(|i| i.parse::<u64>().is_err());
        let now = self.now();
        let r = self.cx.ack(sub, ids).await;
        let c = Self::code(&r);
        self.steps.push(format!("ack({},{:?})={}@{}ms", short(sub), ids, c, now / MS));
        let want: &[i32] = if malformed {
            &[3]
        } else if exists {
            &[0]
        } else {
            &[5]
        };
        if self.expect("Acknowledge", c, want, if malformed { "C17" } else { "C10" }) && c == 0 {
            self.m.acked(sub, ids, now);
        }
        self.after_step(if c == 0 { "Ack" } else { "Rejected" }).await;
        c
    }

    /// An acknowledgement sent as a control message on the StreamingPull stream that is open on
    /// `sub` (ack IDs belong to the subscription, not to the consumer that received them). There is
    /// no reply; the step ends when the server has nothing left to run.
    pub async fn stream_ack(&mut self, sub: &str, ids: &[String]) -> bool {
        let now = self.now();
        let sent = match self.streams.get(sub) {
            Some(h) if h.ended().is_none() => h.send(ids, &[], &[]),
            _ => false,
        };
        self.steps.push(format!("stream_ack({},{:?}) sent={}@{}ms", short(sub), ids, sent, now / MS));
        if sent {
            self.w.barrier().await;
            self.drain_streams();
            let still_open = self.streams.get(sub).map(|h| h.ended().is_none()).unwrap_or(false);
            if still_open {
                self.m.acked(sub, ids, now);
            } else {
                self.steps.push("  (the stream ended on that control message)".into());
            }
        }
        self.after_step(if sent { "Ack" } else { "Rejected" }).await;
        sent
    }

    /// An acknowledgement followed - without letting anything else run - by a jump of the clock:
    /// time passes while whatever the call left queued is still queued. An ack that has returned
    /// OK before the deadline is final even if the deadline passes right afterwards.
    pub async fn ack_then_jump(&mut self, sub: &str, ids: &[String], jump: Duration) -> i32 {
        let now = self.now();
        let r = self.cx.ack(sub, ids).await;
        let c = Self::code(&r);
        let ret = self.now();
        self.steps.push(format!("ack({},{:?})={}@{}ms then clock jumps {} ms", short(sub), ids, c, now / MS, jump.as_millis()));
        if c == 0 {
            self.m.acked(sub, ids, ret);
        }
        tokio::time::advance(jump).await;
        self.after_step(if c == 0 { "Ack" } else { "Rejected" }).await;
        c
    }

    pub async fn modify(&mut self, sub: &str, ids: &[String], secs: i32) -> i32 {
        let exists = self.m.subs.contains_key(sub);
        let malformed = secs < 0 || ids.iter().any(|i| i.parse::<u64>().is_err());
        let now = self.now();
        let r = self.cx.modify(sub, ids, secs).await;
        let c = Self::code(&r);
        self.steps.push(format!("modify({},{:?},{})={}@{}ms", short(sub), ids, secs, c, now / MS));
        let want: &[i32] = if malformed && !ids.is_empty() {
            &[3]
        } else if malformed {
            &[3, 0, 5]
        } else if exists {
            &[0]
        } else {
            &[5]
        };
        if self.expect("ModifyAckDeadline", c, want, if malformed { "C05" } else { "C10" }) && c == 0 && secs >= 0 {
            self.m.modified(sub, ids, secs, now);
        }
        self.after_step(if c != 0 { "Rejected" } else if secs == 0 { "Nack" } else { "Modify" }).await;
        c
    }

    /// Lets virtual time pass; all timers in between fire in order.
    pub async fn advance(&mut self, d: Duration) {
        self.steps.push(format!("advance({}ms)", d.as_millis()));
        // the settle of `after_step` accounts for the last millisecond, so that the step
        // ends exactly `d` later (probes 1 ms before a deadline must not cross it)
        let settle_ms = if self.settle_each_step { Duration::from_millis(1) } else { Duration::ZERO };
        if d > settle_ms {
            self.w.advance(d - settle_ms).await;
        }
        if std::env::var("DVDEBUG").is_ok() { self.steps.push(format!("DEBUG after w.advance now={}", self.now())); }
        self.after_step("Advance").await;
        if std::env::var("DVDEBUG").is_ok() { self.steps.push(format!("DEBUG after after_step now={}", self.now())); }
    }

    /// Advances to the absolute virtual instant `t` (no-op if already past).
    pub async fn advance_to(&mut self, t: Vt) {
        let now = self.now();
        if t > now {
            self.advance(Duration::from_nanos(t - now)).await;
        }
    }

    // ---- streams ---------------------------------------------------------------------------------

    pub async fn open_stream(&mut self, sub: &str, max_outstanding: i64) -> i32 {
        let exists = self.m.subs.contains_key(sub);
        let r = Cx::new(&self.w, 50 + self.streams.len() as u32).open_stream(sub, max_outstanding).await;
        let c = match &r {
            Ok(_) => 0,
            Err(s) => s.code() as i32,
        };
        self.steps.push(format!("open_stream({},{})={}", short(sub), max_outstanding, c));
        let want: &[i32] = if !(0..=65535).contains(&max_outstanding) {
            &[3]
        } else if exists {
            &[0]
        } else {
            &[5]
        };
        if self.expect("StreamingPull", c, want, "C10") {
            if let Ok(h) = r {
                self.stream_seen.insert(sub.to_string(), 0);
                self.streams.insert(sub.to_string(), h);
            }
        }
        self.after_step("StreamOpen").await;
        c
    }

    /// Feeds stream deliveries recorded since the last call into the model, in
    /// recording order, grouped per response.
    pub fn drain_streams(&mut self) {
        let subs: Vec<String> = self.streams.keys().cloned().collect();
        for sub in subs {
            let h = &self.streams[&sub];
            let all = h.deliveries();
            let seen = *self.stream_seen.get(&sub).unwrap_or(&0);
            if all.len() <= seen {
                continue;
            }
            let new = &all[seen..];
            // the vt of each delivery comes from the recorder
            let evs = self.w.rec.snapshot();
            let mut groups: Vec<(Vt, Vec<(String, String, String)>)> = Vec::new();
            let mut last_resp = u32::MAX;
            for d in new {
                let vt = evs
                    .iter()
                    .find_map(|e| match &e.kind {
                        EvKind::Deliver(x) if x.op_id == d.op_id && x.resp_no == d.resp_no && x.idx == d.idx => Some(e.vt),
                        _ => None,
                    })
                    .unwrap_or_else(|| self.w.vt());
                if d.resp_no != last_resp {
                    groups.push((vt, Vec::new()));
                    last_resp = d.resp_no;
                }
                groups.last_mut().unwrap().1.push((d.ack_id.clone(), d.tag.clone(), d.msg_id.clone()));
            }
            self.stream_seen.insert(sub.clone(), all.len());
            let max = 0; // checked by the caller that knows the stream's limit
            for (vt, items) in groups {
                self.steps.push(format!("stream({})->{:?}@{}ms", short(&sub), items.iter().map(|i| format!("{}/{}", i.1, i.0)).collect::<Vec<_>>(), vt / MS));
                // lateness: the stream was waiting; a message certainly available before vt should have come earlier
                if let Some(t) = self.m.earliest_certain(&sub, 0) {
                    let s = &self.m.subs[&sub];
                    let only_leases = s.fresh.is_empty() && s.requeued.is_empty();
                    if only_leases && vt > t + MS {
                        self.m.found.push(Found {
                            property: "C04",
                            sig: "C04:late:stream-redelivery-late".into(),
                            detail: format!("open stream on {} received a redelivery {} ms after the latest admissible expiry instant", short(&sub), (vt - t) / MS),
                            group: u64::MAX,
                        });
                    }
                }
                self.m.pulled(&sub, &items, max, false, vt, vt, Via::Stream);
            }
        }
    }

    /// At a quiescent point: an open, reading stream must not leave available messages behind.
    pub fn check_streams_drained(&mut self, rep: &mut EpReport) {
        let now = self.now();
        self.m.advance(now);
        for (sub, h) in &self.streams {
            if h.ended().is_some() {
                continue;
            }
            if let Some(s) = self.m.subs.get(sub) {
                if !s.fresh.is_empty() || !s.requeued.is_empty() {
                    if s.requeued.values().any(|c| *c == "expiry-after-modify") {
                        rep.viol(
                            "C05",
                            "C05:late-after-modify:stream-never-redelivered",
                            format!("open stream on {} is idle although the modified deadline of one of its deliveries has passed (deadline + slack)", short(sub)),
                        );
                    }
                    rep.viol(
                        "C06",
                        "C06:Q-wake:stream-left-messages",
                        format!("open stream on {} is idle while {} message(s) are available", short(sub), s.fresh.len() + s.requeued.len()),
                    );
                }
            }
        }
    }

    /// Moves everything the model and the status checks found into the report.
    pub fn flush(&mut self, rep: &mut EpReport) {
        // Once the model and the server have diverged, everything found later is a
        // consequence of the first divergence: only the first finding is reported.
        let mut all: Vec<Found> = self.unexpected_status.drain(..).collect();
        all.extend(self.m.found.drain(..));
        let n = all.len() as u64;
        if let Some(first) = all.first().cloned() {
            let mut kept = 0;
            if !self.flushed_findings {
                self.flushed_findings = true;
                // everything the first divergent event showed (one response can break two properties)
                for f in all.into_iter().filter(|f| f.group == first.group && (f.group != 0 || f.sig == first.sig)) {
                    rep.viol(f.property, f.sig, f.detail);
                    kept += 1;
                }
            }
            rep.add("followup_findings_suppressed", n - kept.min(n));
        }
        rep.add("in_window_steps", self.m.in_window_steps);
        rep.add("expiries_crossed", self.m.expiries_crossed);
        self.m.in_window_steps = 0;
        self.m.expiries_crossed = 0;
    }

    pub fn history(&self, limit: usize) -> Vec<String> {
        let mut v: Vec<String> = self.steps.iter().take(limit).cloned().collect();
        if self.steps.len() > limit {
            v.push(format!("... {} steps", self.steps.len()));
        }
        v
    }
}
