//! E6 — scripted push endpoint: a raw-TCP HTTP/1.1 server inside the episode's
//! runtime. Every POST is logged (virtual time, parsed JSON) together with the
//! answer it was given (DESIGN 3.8).

use crate::client::{attrs_hash, extract_tag};
use crate::rec::*;
use crate::rng::fnv;
use crate::world::World;
use base64::Engine;
use std::collections::HashMap;
use std::sync::{Arc, Mutex};
use std::time::Duration;
use tokio::io::{AsyncReadExt, AsyncWriteExt};
use tokio::net::{TcpListener, TcpStream};

#[derive(Clone, Debug, PartialEq)]
pub enum Behaviour {
    /// Answer with this status code at once.
    Status(u16),
    /// Read the request, then close the connection without answering.
    ResetAfterRequest,
    /// Close the connection as soon as it is accepted (stands in for a refused connection).
    Refuse,
    /// Answer with the status after a virtual delay.
    Late(u64, u16),
    /// Answer with the status after a virtual delay given in milliseconds (an endpoint with an
    /// ordinary round-trip time).
    LateMs(u64, u16),
    /// Hold the answer until the given virtual instant (ns since the world's start), then answer
    /// with the status: every request held like this is answered in one and the same instant.
    HeldUntil(u64, u16),
}

impl Behaviour {
    pub fn name(&self) -> String {
        match self {
            Behaviour::Status(s) => format!("{}", s),
            Behaviour::ResetAfterRequest => "reset".into(),
            Behaviour::Refuse => "refuse".into(),
            Behaviour::Late(d, s) => format!("late{}s-{}", d, s),
            Behaviour::LateMs(d, s) => format!("late{}ms-{}", d, s),
            Behaviour::HeldUntil(_, s) => format!("held-{}", s),
        }
    }
    pub fn accepted(&self) -> bool {
        matches!(self, Behaviour::Status(102 | 200 | 201 | 202 | 204))
    }
}

#[derive(Clone, Debug)]
pub struct PostRec {
    pub vt_begin: Vt,
    pub vt_answer: Option<Vt>,
    pub path: String,
    pub json_ok: bool,
    pub sub: String,
    pub msg_id: String,
    pub msg_id_dupe: String,
    pub data: Vec<u8>,
    pub data_ok: bool,
    pub attrs: HashMap<String, String>,
    pub tag: String,
    pub behaviour: Behaviour,
    pub attempt: usize,
    pub content_type: String,
}

#[derive(Default)]
pub struct Script {
    /// Per message tag: behaviour of attempt 0, 1, ...; afterwards `fallback`.
    pub per_tag: HashMap<String, Vec<Behaviour>>,
    pub fallback: Option<Behaviour>,
    attempts: HashMap<String, usize>,
}

pub struct Endpoint {
    pub url: String,
    pub port: u16,
    pub log: Arc<Mutex<Vec<PostRec>>>,
    pub script: Arc<Mutex<Script>>,
    task: tokio::task::JoinHandle<()>,
}

impl Drop for Endpoint {
    fn drop(&mut self) {
        self.task.abort();
    }
}

impl Endpoint {
    pub async fn start(w: &Arc<World>, path: &str) -> std::io::Result<Endpoint> {
        Self::start_on(w, path, 0).await
    }

    pub async fn start_on(w: &Arc<World>, path: &str, port: u16) -> std::io::Result<Endpoint> {
        // (the ephemeral port range can be exhausted for a moment when 16 shards churn through
        // thousands of short-lived connections: wait a little in real time and try again)
        let mut tries = 0;
        let listener = loop {
            match TcpListener::bind(("127.0.0.1", port)).await {
                Ok(l) => break l,
                Err(e) if e.kind() == std::io::ErrorKind::AddrInUse && port == 0 && tries < 100 => {
                    tries += 1;
                    std::thread::sleep(std::time::Duration::from_millis(100));
                }
                Err(e) => return Err(e),
            }
        };
        let port = listener.local_addr()?.port();
        let log = Arc::new(Mutex::new(Vec::new()));
        let script = Arc::new(Mutex::new(Script::default()));
        let (l2, s2, w2) = (Arc::clone(&log), Arc::clone(&script), Arc::clone(w));
        let task = tokio::spawn(async move {
            loop {
                let Ok((stream, _)) = listener.accept().await else { break };
                let (l3, s3, w3) = (Arc::clone(&l2), Arc::clone(&s2), Arc::clone(&w2));
                tokio::spawn(async move {
                    let _ = serve_conn(stream, l3, s3, w3).await;
                });
            }
        });
        Ok(Endpoint {
            url: format!("http://127.0.0.1:{}{}", port, path),
            port,
            log,
            script,
            task,
        })
    }

    pub fn set_script(&self, tag: &str, seq: Vec<Behaviour>) {
        self.script.lock().unwrap().per_tag.insert(tag.to_string(), seq);
    }

    pub fn set_fallback(&self, b: Behaviour) {
        self.script.lock().unwrap().fallback = Some(b);
    }

    pub fn posts(&self) -> Vec<PostRec> {
        self.log.lock().unwrap().clone()
    }
}

async fn read_request(stream: &mut TcpStream) -> std::io::Result<Option<(String, String, Vec<u8>)>> {
    let mut buf = Vec::with_capacity(4096);
    let mut tmp = [0u8; 8192];
    let header_end;
    loop {
        if let Some(pos) = find(&buf, b"\r\n\r\n") {
            header_end = pos + 4;
            break;
        }
        let n = stream.read(&mut tmp).await?;
        if n == 0 {
            return Ok(None);
        }
        buf.extend_from_slice(&tmp[..n]);
        if buf.len() > 64 << 20 {
            return Ok(None);
        }
    }
    let head = String::from_utf8_lossy(&buf[..header_end]).to_string();
    let mut lines = head.split("\r\n");
    let request_line = lines.next().unwrap_or("").to_string();
    let mut content_length = 0usize;
    let mut content_type = String::new();
    for l in lines {
        if let Some((k, v)) = l.split_once(':') {
            if k.eq_ignore_ascii_case("content-length") {
                content_length = v.trim().parse().unwrap_or(0);
            }
            if k.eq_ignore_ascii_case("content-type") {
                content_type = v.trim().to_string();
            }
        }
    }
    let mut body = buf[header_end..].to_vec();
    while body.len() < content_length {
        let n = stream.read(&mut tmp).await?;
        if n == 0 {
            break;
        }
        body.extend_from_slice(&tmp[..n]);
    }
    Ok(Some((request_line, content_type, body)))
}

fn find(hay: &[u8], needle: &[u8]) -> Option<usize> {
    hay.windows(needle.len()).position(|w| w == needle)
}

async fn serve_conn(mut stream: TcpStream, log: Arc<Mutex<Vec<PostRec>>>, script: Arc<Mutex<Script>>, w: Arc<World>) -> std::io::Result<()> {
    // A refusing endpoint is decided before reading: peek the script's global mode.
    let refuse_all = matches!(script.lock().unwrap().fallback, Some(Behaviour::Refuse));
    if refuse_all && script.lock().unwrap().per_tag.is_empty() {
        drop(stream);
        return Ok(());
    }
    let Some((request_line, content_type, body)) = read_request(&mut stream).await? else {
        return Ok(());
    };
    let path = request_line.split_whitespace().nth(1).unwrap_or("").to_string();
    let vt_begin = w.vt();
    let parsed: Option<serde_json::Value> = serde_json::from_slice(&body).ok();
    let mut rec = PostRec {
        vt_begin,
        vt_answer: None,
        path,
        json_ok: false,
        sub: String::new(),
        msg_id: String::new(),
        msg_id_dupe: String::new(),
        data: vec![],
        data_ok: false,
        attrs: HashMap::new(),
        tag: String::new(),
        behaviour: Behaviour::Status(200),
        attempt: 0,
        content_type,
    };
    if let Some(v) = &parsed {
        let m = &v["message"];
        rec.json_ok = v["subscription"].is_string() && m.is_object();
        rec.sub = v["subscription"].as_str().unwrap_or("").to_string();
        rec.msg_id = m["message_id"].as_str().unwrap_or("").to_string();
        rec.msg_id_dupe = m["messageId"].as_str().unwrap_or("").to_string();
        if let Some(d) = m["data"].as_str() {
            if let Ok(bytes) = base64::engine::general_purpose::STANDARD.decode(d) {
                rec.data = bytes;
                rec.data_ok = true;
            }
        }
        if let Some(a) = m["attributes"].as_object() {
            for (k, val) in a {
                rec.attrs.insert(k.clone(), val.as_str().unwrap_or("").to_string());
            }
        }
        rec.tag = extract_tag(&rec.data, &rec.attrs);
    }
    // Which behaviour for this attempt?
    let behaviour = {
        let mut s = script.lock().unwrap();
        let n = *s.attempts.get(&rec.tag).unwrap_or(&0);
        s.attempts.insert(rec.tag.clone(), n + 1);
        rec.attempt = n;
        let b = s.per_tag.get(&rec.tag).and_then(|seq| seq.get(n)).cloned();
        b.or_else(|| s.fallback.clone()).unwrap_or(Behaviour::Status(200))
    };
    rec.behaviour = behaviour.clone();
    let idx = {
        let mut l = log.lock().unwrap();
        l.push(rec.clone());
        l.len() - 1
    };
    w.rec.push(
        vt_begin,
        0,
        EvKind::Post(PostEv {
            sub: rec.sub.clone(),
            msg_id: rec.msg_id.clone(),
            msg_id_dupe: rec.msg_id_dupe.clone(),
            tag: rec.tag.clone(),
            data_hash: fnv(&rec.data),
            data_ok: rec.data_ok,
            attrs_hash: attrs_hash(&rec.attrs),
            json_ok: rec.json_ok,
            answer: behaviour.name(),
            raw_len: body.len(),
        }),
    );
    match behaviour {
        Behaviour::Refuse | Behaviour::ResetAfterRequest => {
            log.lock().unwrap()[idx].vt_answer = Some(w.vt());
            drop(stream);
        }
        Behaviour::Status(code) => {
            respond(&mut stream, code).await?;
            log.lock().unwrap()[idx].vt_answer = Some(w.vt());
            linger(&mut stream, code).await;
        }
        Behaviour::LateMs(ms, code) => {
            tokio::time::sleep(Duration::from_millis(ms)).await;
            let _ = respond(&mut stream, code).await;
            log.lock().unwrap()[idx].vt_answer = Some(w.vt());
            linger(&mut stream, code).await;
        }
        Behaviour::HeldUntil(at, code) => {
            let now = w.vt();
            if at > now {
                tokio::time::sleep(Duration::from_nanos(at - now)).await;
            }
            let _ = respond(&mut stream, code).await;
            log.lock().unwrap()[idx].vt_answer = Some(w.vt());
            linger(&mut stream, code).await;
        }
        Behaviour::Late(secs, code) => {
            tokio::time::sleep(Duration::from_secs(secs)).await;
            let _ = respond(&mut stream, code).await;
            log.lock().unwrap()[idx].vt_answer = Some(w.vt());
            linger(&mut stream, code).await;
        }
    }
    Ok(())
}

async fn respond(stream: &mut TcpStream, code: u16) -> std::io::Result<()> {
    let reason = match code {
        100 => "Continue",
        102 => "Processing",
        200 => "OK",
        201 => "Created",
        202 => "Accepted",
        203 => "Non-Authoritative Information",
        204 => "No Content",
        205 => "Reset Content",
        301 => "Moved Permanently",
        400 => "Bad Request",
        404 => "Not Found",
        429 => "Too Many Requests",
        500 => "Internal Server Error",
        503 => "Service Unavailable",
        _ => "Status",
    };
    let no_body = code < 200 || code == 204 || code == 205 || code == 304;
    let msg = if no_body {
        if code < 200 {
            format!("HTTP/1.1 {} {}\r\n\r\n", code, reason)
        } else {
            format!("HTTP/1.1 {} {}\r\nConnection: close\r\n\r\n", code, reason)
        }
    } else {
        format!("HTTP/1.1 {} {}\r\nContent-Length: 2\r\nConnection: close\r\n\r\nok", code, reason)
    };
    stream.write_all(msg.as_bytes()).await?;
    stream.flush().await?;
    Ok(())
}

async fn linger(stream: &mut TcpStream, code: u16) {
    if code < 200 {
        // An interim response: keep the connection open for a while, as a server that is
        // "processing" would; the client sees no final response.
        tokio::time::sleep(Duration::from_secs(600)).await;
    }
    // The response said `Connection: close`: wait (in real time, the clock is virtual) for the
    // client to read it and close its side, then close with a reset. That way neither side keeps
    // a TIME_WAIT socket: thousands of episodes per minute would otherwise exhaust the ephemeral
    // port range (every episode binds fresh listeners).
    let t0 = std::time::Instant::now();
    let mut buf = [0u8; 256];
    loop {
        match stream.try_read(&mut buf) {
            Ok(0) => break,
            Ok(_) => continue,
            Err(e) if e.kind() == std::io::ErrorKind::WouldBlock => {
                if t0.elapsed() > std::time::Duration::from_millis(200) {
                    break;
                }
                tokio::task::yield_now().await;
            }
            Err(_) => break,
        }
    }
    let _ = stream.set_linger(Some(std::time::Duration::from_secs(0)));
}
