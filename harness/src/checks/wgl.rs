//! Per-name linearizability check (Wing-Gong / Lowe with memoisation) for the
//! topic and subscription namespaces (C10, DESIGN 4/C10).
//!
//! Sequential specification per name, state = None | Some(incarnation):
//!   Create OK            : None -> Some(new);   ALREADY_EXISTS : is Some
//!   Get/Publish/Pull/... : OK => is Some (Get/List: the incarnation's attributes);  NOT_FOUND => is None
//!   Delete OK            : observes Some(i) at one point, ensures i is gone at a later point, both
//!                          inside the call (two overlapping deletes may both succeed); NOT_FOUND => is None
//!   List                 : one contains(name) read per name of the pool
//! Statuses that only a race with a deletion produces (FAILED_PRECONDITION, INTERNAL) constrain nothing.

use crate::model::effective_deadline;
use crate::rec::*;
use crate::report::EpReport;
use std::collections::{BTreeMap, HashMap, HashSet};

#[derive(Clone, Debug)]
enum Act {
    Create(u64),
    /// is Some; optional attribute check: (deadline, topic) as reported
    ReadSome(Option<(i32, String)>),
    ReadNone,
    DelObserve(u64), // u64: id of the delete op (pairs with DelRemove)
    DelRemove(u64),
    /// A create that was answered FAILED_PRECONDITION / INTERNAL because it was caught in a
    /// racing deletion: it may or may not have created the resource.
    MaybeCreate(u64),
    /// Likewise for a delete answered with such a status.
    MaybeDelete,
}

#[derive(Clone, Debug)]
struct LOp {
    call: u64,
    ret: u64,
    act: Act,
    desc: String,
}

pub struct WglStats {
    pub names_checked: u64,
    pub ops: u64,
    pub overlapping_pairs: u64,
    pub double_delete_ok: u64,
    pub budget_exhausted: u64,
    pub nodes: u64,
}

#[derive(Clone)]
struct Attrs {
    deadline: i32,
    topic: String,
}

pub fn check(h: &History, rep: &mut EpReport, topic_pool: &[String], sub_pool: &[String]) -> WglStats {
    let mut st = WglStats { names_checked: 0, ops: 0, overlapping_pairs: 0, double_delete_ok: 0, budget_exhausted: 0, nodes: 0 };
    let mut per_topic: BTreeMap<String, Vec<LOp>> = BTreeMap::new();
    let mut per_sub: BTreeMap<String, Vec<LOp>> = BTreeMap::new();
    let mut attrs: HashMap<u64, Attrs> = HashMap::new();
    for o in h.ops.values() {
        let Some((ret_seq, _, out)) = &o.ret else { continue }; // open operations are not generated in the C10 profile
        let code = out.code();
        let d = format!("{}#{}={}", o.op.kind(), o.op_id, out.class());
        let mk = |act: Act| LOp { call: o.call_seq, ret: *ret_seq, act, desc: d.clone() };
        let read = |ok: bool| if ok { Act::ReadSome(None) } else { Act::ReadNone };
        match &o.op {
            Op::CreateTopic { name } => match code {
                0 => per_topic.entry(name.clone()).or_default().push(mk(Act::Create(o.op_id))),
                6 => per_topic.entry(name.clone()).or_default().push(mk(Act::ReadSome(None))),
                _ => {}
            },
            Op::DeleteTopic { name } => match code {
                0 => {
                    let e = per_topic.entry(name.clone()).or_default();
                    e.push(mk(Act::DelObserve(o.op_id)));
                    e.push(mk(Act::DelRemove(o.op_id)));
                }
                5 => per_topic.entry(name.clone()).or_default().push(mk(Act::ReadNone)),
                9 | 13 => per_topic.entry(name.clone()).or_default().push(mk(Act::MaybeDelete)),
                _ => {}
            },
            Op::GetTopic { name } | Op::Publish { topic: name, .. } | Op::ListTopicSubs { topic: name, .. } => {
                if code == 0 || code == 5 {
                    per_topic.entry(name.clone()).or_default().push(mk(read(code == 0)));
                }
            }
            Op::ListTopics { project, token, size } => {
                if let Out::Names { names, next } = out {
                    // only complete single-page listings are usable as a contains() read: a first page
                    // that is shorter than its page size (the server issues a token after every page)
                    let _ = next;
                    if token.is_empty() && names.len() < page_capacity(*size) {
                        for t in topic_pool {
                            if t.starts_with(&format!("{}/topics/", project)) {
                                per_topic.entry(t.clone()).or_default().push(mk(read(names.contains(t))));
                            }
                        }
                    }
                }
            }
            Op::CreateSub { name, topic, deadline_s, .. } => {
                match code {
                    0 => {
                        attrs.insert(o.op_id, Attrs { deadline: effective_deadline(*deadline_s) as i32, topic: topic.clone() });
                        per_sub.entry(name.clone()).or_default().push(mk(Act::Create(o.op_id)));
                        per_topic.entry(topic.clone()).or_default().push(mk(Act::ReadSome(None)));
                        if let Out::Sub(v) = out {
                            if v.name != *name || v.deadline_s != effective_deadline(*deadline_s) as i32 || v.topic != *topic {
                                rep.viol("C10", "C10:create-echo", format!("CreateSubscription({}, {}, {}) echoed {:?}", short(name), short(topic), deadline_s, v));
                            }
                        }
                    }
                    6 => {
                        per_sub.entry(name.clone()).or_default().push(mk(Act::ReadSome(None)));
                    }
                    5 => {
                        per_topic.entry(topic.clone()).or_default().push(mk(Act::ReadNone));
                    }
                    9 | 13 => {
                        attrs.insert(o.op_id, Attrs { deadline: effective_deadline(*deadline_s) as i32, topic: topic.clone() });
                        per_sub.entry(name.clone()).or_default().push(mk(Act::MaybeCreate(o.op_id)));
                    }
                    _ => {}
                }
            }
            Op::DeleteSub { name } => match code {
                0 => {
                    let e = per_sub.entry(name.clone()).or_default();
                    e.push(mk(Act::DelObserve(o.op_id)));
                    e.push(mk(Act::DelRemove(o.op_id)));
                }
                5 => per_sub.entry(name.clone()).or_default().push(mk(Act::ReadNone)),
                9 | 13 => per_sub.entry(name.clone()).or_default().push(mk(Act::MaybeDelete)),
                _ => {}
            },
            Op::GetSub { name } => match (code, out) {
                (0, Out::Sub(v)) => {
                    if v.name != *name {
                        rep.viol("C10", "C10:get-wrong-name", format!("GetSubscription({}) returned {}", name, v.name));
                    }
                    per_sub.entry(name.clone()).or_default().push(mk(Act::ReadSome(Some((v.deadline_s, v.topic.clone())))));
                }
                (5, _) => per_sub.entry(name.clone()).or_default().push(mk(Act::ReadNone)),
                _ => {}
            },
            Op::Pull { sub, .. } | Op::Ack { sub, .. } | Op::Modify { sub, .. } | Op::StreamOpen { sub, .. } => {
                if code == 0 || code == 5 {
                    per_sub.entry(sub.clone()).or_default().push(mk(read(code == 0)));
                }
            }
            Op::ListSubs { project, token, size } => {
                if let Out::Subs { subs, next } = out {
                    let _ = next;
                    if token.is_empty() && subs.len() < page_capacity(*size) {
                        for s in sub_pool {
                            if s.starts_with(&format!("{}/subscriptions/", project)) {
                                match subs.iter().find(|v| v.name == *s) {
                                    Some(v) => per_sub.entry(s.clone()).or_default().push(mk(Act::ReadSome(Some((v.deadline_s, v.topic.clone()))))),
                                    None => per_sub.entry(s.clone()).or_default().push(mk(Act::ReadNone)),
                                }
                            }
                        }
                    }
                }
            }
            _ => {}
        }
    }
    for (kind, map) in [("topic", &per_topic), ("subscription", &per_sub)] {
        for (name, ops) in map {
            st.names_checked += 1;
            st.ops += ops.len() as u64;
            let mut ops = ops.clone();
            ops.sort_by_key(|o| (o.call, matches!(o.act, Act::DelRemove(_))));
            for i in 0..ops.len() {
                for j in (i + 1)..ops.len() {
                    if ops[j].call < ops[i].ret && ops[i].call < ops[j].ret {
                        st.overlapping_pairs += 1;
                        if matches!(ops[i].act, Act::DelObserve(_)) && matches!(ops[j].act, Act::DelObserve(_)) {
                            st.double_delete_ok += 1;
                        }
                    }
                }
            }
            if ops.len() > 62 {
                st.budget_exhausted += 1;
                rep.inconclusive("wgl: more than 62 operations on one name");
                continue;
            }
            let mut nodes = 0u64;
            match search(&ops, &attrs, &mut nodes) {
                Some(true) => {}
                Some(false) => {
                    let shape: Vec<String> = ops.iter().map(|o| format!("[{}..{}]{}", o.call, o.ret, o.desc)).collect();
                    rep.viol("C10", format!("C10:not-linearizable:{}", kind), format!("operations on {} admit no linearization: {}", short(name), shape.join(" ")));
                }
                None => {
                    st.budget_exhausted += 1;
                    rep.inconclusive("wgl: node budget exhausted");
                }
            }
            st.nodes += nodes;
        }
    }
    st
}

/// Entries a page of the given requested size can hold (0 = the default of 20; the server's cap is
/// 1000): a page with fewer entries is the last one.
fn page_capacity(size: i32) -> usize {
    if size <= 0 { 20 } else { (size as usize).min(1000) }
}

fn apply(state: Option<u64>, act: &Act, attrs: &HashMap<u64, Attrs>) -> Option<Option<u64>> {
    match act {
        Act::Create(id) => {
            if state.is_none() {
                Some(Some(*id))
            } else {
                None
            }
        }
        Act::ReadSome(check) => match state {
            Some(inc) => {
                if let (Some((dl, topic)), Some(a)) = (check, attrs.get(&inc)) {
                    if *dl != a.deadline || (*topic != a.topic && topic != "_deleted_topic_") {
                        return None;
                    }
                }
                Some(state)
            }
            None => None,
        },
        Act::ReadNone => {
            if state.is_none() {
                Some(None)
            } else {
                None
            }
        }
        Act::DelObserve(_) => state.map(Some),
        Act::DelRemove(_) => Some(state), // resolved by the caller, which knows what was observed
        Act::MaybeCreate(_) | Act::MaybeDelete => Some(state), // alternatives explored by the caller
    }
}

/// Some(true): linearizable; Some(false): not; None: budget exhausted.
fn search(ops: &[LOp], attrs: &HashMap<u64, Attrs>, nodes: &mut u64) -> Option<bool> {
    let n = ops.len();
    let full: u64 = if n == 64 { u64::MAX } else { (1u64 << n) - 1 };
    // state: (mask, current incarnation, observed incarnation per pending delete) - the latter folded
    // into a small vector keyed by delete op id
    #[derive(Clone, PartialEq, Eq, Hash)]
    struct Node {
        mask: u64,
        state: Option<u64>,
        observed: Vec<(u64, u64)>,
    }
    let mut seen: HashSet<Node> = HashSet::new();
    let mut stack = vec![Node { mask: 0, state: None, observed: vec![] }];
    while let Some(node) = stack.pop() {
        *nodes += 1;
        if *nodes > 1_000_000 {
            return None;
        }
        if node.mask == full {
            return Some(true);
        }
        // the earliest return among unlinearized operations bounds who may go next
        let mut min_ret = u64::MAX;
        for (i, o) in ops.iter().enumerate() {
            if node.mask & (1 << i) == 0 {
                min_ret = min_ret.min(o.ret);
            }
        }
        for (i, o) in ops.iter().enumerate() {
            if node.mask & (1 << i) != 0 || o.call > min_ret {
                continue;
            }
            let mut next = node.clone();
            match &o.act {
                Act::DelRemove(id) => {
                    // needs its observation first
                    let Some(pos) = next.observed.iter().position(|(d, _)| d == id) else { continue };
                    let (_, inc) = next.observed.remove(pos);
                    if next.state == Some(inc) {
                        next.state = None;
                    }
                }
                Act::DelObserve(id) => {
                    let Some(inc) = node.state else { continue };
                    next.observed.push((*id, inc));
                    next.observed.sort();
                }
                Act::MaybeCreate(id) => {
                    // alternative 1: it took effect (only possible on an absent name)
                    if node.state.is_none() {
                        let mut alt = node.clone();
                        alt.state = Some(*id);
                        alt.mask |= 1 << i;
                        if seen.insert(alt.clone()) {
                            stack.push(alt);
                        }
                    }
                    // alternative 2 (below): no effect
                }
                Act::MaybeDelete => {
                    if node.state.is_some() {
                        let mut alt = node.clone();
                        alt.state = None;
                        alt.mask |= 1 << i;
                        if seen.insert(alt.clone()) {
                            stack.push(alt);
                        }
                    }
                }
                act => match apply(node.state, act, attrs) {
                    Some(s) => next.state = s,
                    None => continue,
                },
            }
            next.mask |= 1 << i;
            if seen.insert(next.clone()) {
                stack.push(next);
            }
        }
    }
    Some(false)
}
