//! Interval-based lease checker over a concurrent history (Appendix B.2):
//! X1/X2/X3 (C03), A1 (C02), L1/S1 (C01). Sound necessary conditions only:
//! whenever attribution is ambiguous the case is skipped and counted.
//!
//! Assumes subscription and topic names are not reused inside the episode
//! (CONC data-plane profiles create fresh names), so a name is an incarnation.

use crate::model::effective_deadline;
use crate::rec::*;
use crate::report::EpReport;
use std::collections::{BTreeMap, BTreeSet, HashMap};

pub const DRAIN_CLIENT: u32 = 9999;

struct SubInfo {
    topic: String,
    a: u64,
    create_call_seq: u64,
    create_ret_seq: u64,
    delete_call_seq: Option<u64>,
    push: bool,
}

#[derive(Clone)]
struct D {
    seq: u64,
    vt: Vt,
    op_id: u64,
    client: u32,
    ack_id: String,
    via: Via,
    /// For a unary pull: the call seq of the pull (hand-out cannot precede it).
    pull_call_seq: Option<u64>,
}

/// An operation naming an ack id.
struct Touch {
    call_seq: u64,
    call_vt: Vt,
    ret_seq: Option<u64>,
    ret_vt: Option<Vt>,
    ok: bool,
    /// None = ack, Some(n) = modify with n seconds (0 = nack)
    secs: Option<i32>,
    via_stream: bool,
}

pub struct LeaseStats {
    pub deliveries: u64,
    pub redeliveries: u64,
    pub obligations: u64,
    pub certain_acks: u64,
    pub ambiguous_skipped: u64,
    pub multi_consumer_subs: u64,
}

pub fn check(h: &History, rep: &mut EpReport, drained: bool) -> LeaseStats {
    let mut st = LeaseStats { deliveries: 0, redeliveries: 0, obligations: 0, certain_acks: 0, ambiguous_skipped: 0, multi_consumer_subs: 0 };
    // ---- subscriptions -------------------------------------------------------------------------
    let mut subs: HashMap<String, SubInfo> = HashMap::new();
    let mut topic_delete_call: HashMap<String, u64> = HashMap::new();
    let mut reused = BTreeSet::new();
    for o in h.ops.values() {
        match &o.op {
            Op::CreateSub { name, topic, deadline_s, push } if o.ok() => {
                if subs.contains_key(name) {
                    reused.insert(name.clone());
                }
                subs.insert(
                    name.clone(),
                    SubInfo { topic: topic.clone(), a: effective_deadline(*deadline_s) * SEC, create_call_seq: o.call_seq, create_ret_seq: o.ret_seq().unwrap_or(u64::MAX), delete_call_seq: None, push: push.is_some() },
                );
            }
            _ => {}
        }
    }
    for o in h.ops.values() {
        match &o.op {
            Op::DeleteSub { name } => {
                // exempt from the moment a delete is *called* (whatever its outcome)
                if let Some(s) = subs.get_mut(name) {
                    s.delete_call_seq = Some(s.delete_call_seq.map(|x| x.min(o.call_seq)).unwrap_or(o.call_seq));
                }
            }
            Op::DeleteTopic { name } => {
                let e = topic_delete_call.entry(name.clone()).or_insert(o.call_seq);
                *e = (*e).min(o.call_seq);
            }
            _ => {}
        }
    }
    // ---- deliveries per (sub, tag) --------------------------------------------------------------
    let mut by: BTreeMap<(String, String), Vec<D>> = BTreeMap::new();
    let mut ack_ids_seen: HashMap<(String, String), u64> = HashMap::new();
    let mut per_resp: HashMap<(u64, u32), BTreeSet<String>> = HashMap::new();
    let mut consumers: HashMap<String, BTreeSet<u64>> = HashMap::new();
    for e in &h.evs {
        if let EvKind::Deliver(d) = &e.kind {
            st.deliveries += 1;
            if reused.contains(&d.sub) {
                st.ambiguous_skipped += 1;
                continue;
            }
            consumers.entry(d.sub.clone()).or_default().insert(d.op_id);
            // X1: ack ids never repeat on a subscription
            if let Some(prev) = ack_ids_seen.insert((d.sub.clone(), d.ack_id.clone()), e.seq) {
                rep.viol("C03", "C03:X1:ack-id-reused", format!("ack id {:?} on {} at #{} and #{}", d.ack_id, short(&d.sub), prev, e.seq));
            }
            // X2: no message twice in one response
            if !per_resp.entry((d.op_id, d.resp_no)).or_default().insert(d.msg_id.clone()) {
                rep.viol("C03", "C03:X2:duplicate-in-response", format!("message {} twice in response {} of op {}", d.msg_id, d.resp_no, d.op_id));
            }
            if d.tag.is_empty() {
                continue;
            }
            let pull_call_seq = h.ops.get(&d.op_id).and_then(|o| if matches!(o.op, Op::Pull { .. }) { Some(o.call_seq) } else { None });
            by.entry((d.sub.clone(), d.tag.clone())).or_default().push(D { seq: e.seq, vt: e.vt, op_id: d.op_id, client: e.client, ack_id: d.ack_id.clone(), via: d.via, pull_call_seq });
        }
    }
    st.multi_consumer_subs = consumers.values().filter(|c| c.len() >= 2).count() as u64;
    // ---- operations naming ack ids ---------------------------------------------------------------
    let mut touches: HashMap<(String, String), Vec<Touch>> = HashMap::new();
    for o in h.ops.values() {
        let (sub, items): (String, Vec<(String, Option<i32>)>) = match &o.op {
            Op::Ack { sub, ids } => (sub.clone(), ids.iter().map(|i| (i.clone(), None)).collect()),
            Op::Modify { sub, ids, secs } => (sub.clone(), ids.iter().map(|i| (i.clone(), Some(*secs))).collect()),
            Op::StreamSend { sub, acks, mod_ids, mod_secs, .. } => {
                let mut v: Vec<(String, Option<i32>)> = acks.iter().map(|i| (i.clone(), None)).collect();
                for (i, id) in mod_ids.iter().enumerate() {
                    v.push((id.clone(), Some(*mod_secs.get(i).unwrap_or(&0))));
                }
                (sub.clone(), v)
            }
            _ => continue,
        };
        let via_stream = matches!(o.op, Op::StreamSend { .. });
        for (id, secs) in items {
            touches.entry((sub.clone(), crate::model::canonical_ack_id(&id))).or_default().push(Touch {
                call_seq: o.call_seq,
                call_vt: o.call_vt,
                // a control message has no reply: its effect point is unknown (open for ever)
                ret_seq: if via_stream { None } else { o.ret_seq() },
                ret_vt: if via_stream { None } else { o.ret.as_ref().map(|r| r.1) },
                ok: if via_stream { true } else { o.ret.is_none() || o.ok() },
                secs,
                via_stream,
            });
        }
    }
    // ---- per (sub, tag): X3 and A1 -----------------------------------------------------------------
    for ((sub, tag), ds) in &by {
        let Some(si) = subs.get(sub) else {
            st.ambiguous_skipped += 1;
            continue;
        };
        let mut ds = ds.clone();
        ds.sort_by_key(|d| (d.vt, d.seq));
        if ds.len() > 1 {
            st.redeliveries += ds.len() as u64 - 1;
        }
        for i in 0..ds.len() {
            let d = &ds[i];
            let empty = Vec::new();
            let ts = touches.get(&(sub.clone(), d.ack_id.clone())).unwrap_or(&empty);
            if let Some(next) = ds.get(i + 1) {
                // X3: the next delivery may not precede the earliest possible end of this lease
                let mut end_lo = d.vt + si.a;
                for t in ts.iter().filter(|t| t.call_seq < next.seq && t.ok) {
                    match t.secs {
                        Some(0) => end_lo = end_lo.min(t.call_vt),
                        Some(n) if n > 0 => end_lo = end_lo.min(t.call_vt + (n as u64).min(600) * SEC),
                        _ => {}
                    }
                }
                if next.vt + MS <= end_lo {
                    if !ts.iter().any(|t| t.secs.is_some()) {
                        // neither modified nor nacked: redelivered before its plain ack deadline
                        rep.viol(
                            "C04",
                            "C04:early:conc",
                            format!("{} on {}: handed out at {} ms with a {} s deadline, never modified or nacked, redelivered at {} ms", tag, short(sub), d.vt / MS, si.a / SEC, next.vt / MS),
                        );
                    }
                    rep.viol(
                        "C03",
                        "C03:X3:lease-overlap",
                        format!("{} on {}: delivered at {} ms (ack id {}) and again at {} ms (ack id {}), {} ms before the first lease could have ended", tag, short(sub), d.vt / MS, d.ack_id, next.vt / MS, next.ack_id, (end_lo - next.vt) / MS),
                    );
                }
            }
            // A1: a certainly effective ack is final
            for a in ts.iter().filter(|t| t.secs.is_none() && !t.via_stream && t.ret_seq.is_some()) {
                if !h_ok(a) {
                    continue;
                }
                let a_ret_seq = a.ret_seq.unwrap();
                let mut end_lo = d.vt + si.a;
                let mut disturbed = false;
                for t in ts.iter().filter(|t| t.call_seq < a_ret_seq) {
                    match t.secs {
                        Some(0) => disturbed = true,
                        Some(n) if n > 0 => end_lo = end_lo.min(t.call_vt + (n as u64).min(600) * SEC),
                        _ => {}
                    }
                }
                if disturbed || a.call_vt + MS > end_lo || a.call_seq < d.seq {
                    continue;
                }
                st.certain_acks += 1;
                let a_ret_vt = a.ret_vt.unwrap_or(a.call_vt);
                for later in ds.iter().skip(i + 1) {
                    let definitely_after = later.vt > a_ret_vt || later.pull_call_seq.map(|c| c > a_ret_seq).unwrap_or(false);
                    if definitely_after {
                        rep.viol(
                            "C02",
                            "C02:redelivered-after-ack",
                            format!("{} on {}: ack of {} returned OK at {} ms (lease could not have ended before {} ms), yet it was delivered again at {} ms with ack id {}", tag, short(sub), d.ack_id, a_ret_vt / MS, end_lo / MS, later.vt / MS, later.ack_id),
                        );
                        break;
                    }
                }
            }
        }
    }
    // ---- S1: spurious deliveries --------------------------------------------------------------------
    for ((sub, tag), ds) in &by {
        let Some(si) = subs.get(sub) else { continue };
        let Some(pr) = h.published.get(tag) else {
            rep.viol("C01", "C01:S1:spurious-delivery", format!("{} delivered on {} but never published", tag, short(sub)));
            continue;
        };
        if pr.topic != si.topic {
            rep.viol("C01", "C01:S1:wrong-topic", format!("{} was published to {} but delivered on {} (topic {})", tag, short(&pr.topic), short(sub), short(&si.topic)));
        }
        if let Some(p) = h.ops.get(&pr.op_id) {
            if let Some(pret) = p.ret_seq() {
                if pret < si.create_call_seq {
                    rep.viol("C01", "C01:S1:published-before-creation", format!("{}: its Publish had returned (#{}) before the creation of {} began (#{}), yet it was delivered there at #{}", tag, pret, short(sub), si.create_call_seq, ds[0].seq));
                }
            }
        }
    }
    // ---- L1: loss ---------------------------------------------------------------------------------
    for (tag, pr) in &h.published {
        let Some(p) = h.ops.get(&pr.op_id) else { continue };
        if !p.ok() {
            continue; // an error (or open) Publish owes nothing
        }
        let pret = p.ret_seq().unwrap();
        for (sname, si) in &subs {
            if si.topic != pr.topic || si.push || reused.contains(sname) {
                continue;
            }
            // attached throughout the Publish call
            if si.create_ret_seq >= p.call_seq {
                continue;
            }
            if si.delete_call_seq.map(|d| d < pret).unwrap_or(false) {
                continue;
            }
            if topic_delete_call.get(&pr.topic).map(|d| *d < pret).unwrap_or(false) {
                continue;
            }
            st.obligations += 1;
            let deleted_later = si.delete_call_seq.is_some();
            let ds = by.get(&(sname.clone(), tag.clone()));
            match ds {
                None => {
                    if !deleted_later && drained {
                        rep.viol("C01", "C01:L1:never-delivered", format!("{} (Publish op {} returned an id) was never delivered on {}, which was attached throughout the call and lived to the end", tag, pr.op_id, short(sname)));
                    }
                }
                Some(ds) => {
                    if deleted_later || !drained {
                        continue;
                    }
                    // redelivered until acknowledged: without any acknowledgement it must show up in the drain
                    let any_ack = ds.iter().any(|d| touches.get(&(sname.clone(), d.ack_id.clone())).map(|ts| ts.iter().any(|t| t.secs.is_none() && t.ok)).unwrap_or(false));
                    let in_drain = ds.iter().any(|d| d.client == DRAIN_CLIENT);
                    if !any_ack && !in_drain {
                        rep.viol("C01", "C01:L1:lost-after-delivery", format!("{} was delivered {} time(s) on {}, never acknowledged, and did not reappear when the subscription was drained after all deadlines had passed", tag, ds.len(), short(sname)));
                    }
                }
            }
        }
    }
    st
}

fn h_ok(t: &Touch) -> bool {
    t.ok && t.ret_seq.is_some()
}
