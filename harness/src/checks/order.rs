//! Order checker (C08) and identity checker (C09) over a recorded history.

use crate::rec::*;
use crate::report::EpReport;
use std::collections::{BTreeMap, HashMap};

fn idnum(s: &str) -> Option<u128> {
    s.parse::<u128>().ok()
}

/// Compares ids numerically; falls back to length-then-lexicographic.
fn id_lt(a: &str, b: &str) -> bool {
    match (idnum(a), idnum(b)) {
        (Some(x), Some(y)) => x < y,
        _ => (a.len(), a) < (b.len(), b),
    }
}

pub struct OrderStats {
    pub publishes: u64,
    pub overlapping_publish_pairs: u64,
    pub first_deliveries: u64,
    pub ordered_pairs_checked: u64,
}

pub fn check_order(h: &History, rep: &mut EpReport) -> OrderStats {
    let mut st = OrderStats { publishes: 0, overlapping_publish_pairs: 0, first_deliveries: 0, ordered_pairs_checked: 0 };
    // ---- Publish responses -------------------------------------------------------------------------
    // tag -> (topic, id, publish op, index)
    let mut id_of: HashMap<String, (String, String, u64, usize)> = HashMap::new();
    let mut pubs: BTreeMap<String, Vec<&OpRec>> = BTreeMap::new();
    for o in h.ops.values() {
        if let Op::Publish { topic, tags } = &o.op {
            if let Some((_, _, Out::Ids(ids))) = &o.ret {
                st.publishes += 1;
                if ids.len() != tags.len() {
                    rep.viol("C08", "C08:ids-length", format!("Publish op {} submitted {} messages and got {} ids", o.op_id, tags.len(), ids.len()));
                }
                for w in ids.windows(2) {
                    if !id_lt(&w[0], &w[1]) {
                        rep.viol("C08", "C08:ids-not-increasing:within-response", format!("Publish op {} returned ids {:?}", o.op_id, ids));
                        break;
                    }
                }
                for (i, t) in tags.iter().enumerate() {
                    if let Some(id) = ids.get(i) {
                        if !t.is_empty() {
                            id_of.insert(t.clone(), (topic.clone(), id.clone(), o.op_id, i));
                        }
                    }
                }
                pubs.entry(topic.clone()).or_default().push(o);
            }
        }
    }
    // ids of hb-ordered publishes of one topic increase
    for (topic, ps) in &pubs {
        for a in ps {
            for b in ps {
                if a.op_id == b.op_id {
                    continue;
                }
                let (Some((ar, _, Out::Ids(ai))), Some((_, _, Out::Ids(bi)))) = (&a.ret, &b.ret) else { continue };
                if *ar < b.call_seq {
                    if let (Some(la), Some(fb)) = (ai.last(), bi.first()) {
                        if !id_lt(la, fb) {
                            rep.viol("C08", "C08:ids-not-increasing:across-publishes", format!("topic {}: Publish op {} returned before op {} was called, yet its last id {} is not below {}", short(topic), a.op_id, b.op_id, la, fb));
                        }
                    }
                } else if a.call_seq < b.call_seq && b.call_seq < *ar {
                    st.overlapping_publish_pairs += 1;
                }
            }
        }
    }
    // ---- first deliveries per subscription ----------------------------------------------------------
    struct First {
        seq: u64,
        vt: Vt,
        op_id: u64,
        resp_no: u32,
        idx: u32,
        tag: String,
        id: String,
        pub_op: u64,
        pub_idx: usize,
        pull_call_seq: Option<u64>,
        pull_ret_seq: Option<u64>,
    }
    let mut firsts: BTreeMap<String, Vec<First>> = BTreeMap::new();
    let mut seen: HashMap<(String, String), ()> = HashMap::new();
    for e in &h.evs {
        if let EvKind::Deliver(d) = &e.kind {
            if d.tag.is_empty() || d.via == Via::Push {
                continue;
            }
            if seen.insert((d.sub.clone(), d.tag.clone()), ()).is_some() {
                continue; // a redelivery
            }
            // the id the topic issued: the one its Publish response carried; for a publish that was
            // answered with an error (or never answered) the id the delivery itself carries
            let from_delivery;
            let (id, pub_op, pub_idx) = match id_of.get(&d.tag) {
                Some((_, id, pub_op, pub_idx)) => (id, pub_op, pub_idx),
                None => match h.published.get(&d.tag) {
                    Some(pr) if !d.msg_id.is_empty() => {
                        from_delivery = (d.msg_id.clone(), pr.op_id, pr.idx);
                        (&from_delivery.0, &from_delivery.1, &from_delivery.2)
                    }
                    _ => continue,
                },
            };
            let o = h.ops.get(&d.op_id);
            let is_pull = o.map(|o| matches!(o.op, Op::Pull { .. })).unwrap_or(false);
            firsts.entry(d.sub.clone()).or_default().push(First {
                seq: e.seq,
                vt: e.vt,
                op_id: d.op_id,
                resp_no: d.resp_no,
                idx: d.idx,
                tag: d.tag.clone(),
                id: id.clone(),
                pub_op: *pub_op,
                pub_idx: *pub_idx,
                pull_call_seq: if is_pull { o.map(|o| o.call_seq) } else { None },
                pull_ret_seq: if is_pull { o.and_then(|o| o.ret_seq()) } else { None },
            });
            st.first_deliveries += 1;
        }
    }
    for (sub, fs) in &firsts {
        // (a) inside one response: increasing ids, requests contiguous and in request order
        let mut by_resp: BTreeMap<(u64, u32), Vec<&First>> = BTreeMap::new();
        for f in fs {
            by_resp.entry((f.op_id, f.resp_no)).or_default().push(f);
        }
        for ((op, rn), v) in &by_resp {
            let mut v = v.clone();
            v.sort_by_key(|f| f.idx);
            for w in v.windows(2) {
                st.ordered_pairs_checked += 1;
                if !id_lt(&w[0].id, &w[1].id) {
                    rep.viol("C08", "C08:O1:first-delivery-order:within-response", format!("{}: response {} of op {} lists {} (id {}) before {} (id {})", short(sub), rn, op, w[0].tag, w[0].id, w[1].tag, w[1].id));
                    break;
                }
                if w[0].pub_op == w[1].pub_op && w[1].pub_idx != w[0].pub_idx + 1 && w[1].idx == w[0].idx + 1 {
                    // same request, adjacent in the response, but not adjacent in the request: something was skipped
                    // (allowed only if the skipped message was delivered earlier)
                }
            }
            // contiguity: between two messages of one request no first delivery of another request
            for i in 0..v.len() {
                for j in (i + 2)..v.len() {
                    if v[i].pub_op == v[j].pub_op {
                        for k in (i + 1)..j {
                            if v[k].pub_op != v[i].pub_op {
                                rep.viol("C08", "C08:O3:request-not-contiguous", format!("{}: {} (request {}) sits between {} and {} of request {}", short(sub), v[k].tag, v[k].pub_op, v[i].tag, v[j].tag, v[i].pub_op));
                            }
                        }
                    }
                }
            }
        }
        // (b) across responses: a first delivery with a larger id definitely earlier. Scanning in
        // id order it suffices to remember, among the smaller ids seen so far, the latest virtual
        // receipt instant and the latest pull call: the current (larger-id) element is definitely
        // first iff it was received strictly before that instant, or its pull returned before
        // that pull was even called.
        let mut sorted: Vec<&First> = fs.iter().collect();
        sorted.sort_by(|x, y| if id_lt(&x.id, &y.id) { std::cmp::Ordering::Less } else if id_lt(&y.id, &x.id) { std::cmp::Ordering::Greater } else { std::cmp::Ordering::Equal });
        // one id, two messages: the topic issued the same id twice
        for w in sorted.windows(2) {
            if w[0].id == w[1].id && w[0].tag != w[1].tag {
                rep.viol("C08", "C08:ids-not-increasing:id-issued-twice", format!("{}: {} and {} were both delivered with message id {}", short(sub), w[0].tag, w[1].tag, w[0].id));
            }
        }
        let mut latest_vt: Option<&First> = None;
        let mut latest_call: Option<&First> = None;
        // per StreamingPull stream: among the smaller ids seen so far, the one in the latest response
        // (the responses of one stream are sent one after the other, whatever the clock says)
        let mut latest_resp: HashMap<u64, &First> = HashMap::new();
        for b in sorted {
            st.ordered_pairs_checked += 1;
            let mut witness: Option<&First> = None;
            if b.pull_call_seq.is_none() {
                if let Some(a) = latest_resp.get(&b.op_id) {
                    if b.resp_no < a.resp_no && id_lt(&a.id, &b.id) {
                        witness = Some(*a);
                    }
                }
                if latest_resp.get(&b.op_id).map(|a| b.resp_no > a.resp_no).unwrap_or(true) {
                    latest_resp.insert(b.op_id, b);
                }
            }
            if let Some(a) = latest_vt {
                if b.vt < a.vt && (a.op_id, a.resp_no) != (b.op_id, b.resp_no) && id_lt(&a.id, &b.id) {
                    witness = Some(a);
                }
            }
            if witness.is_none() {
                if let (Some(a), Some(br)) = (latest_call, b.pull_ret_seq) {
                    if a.pull_call_seq.map(|ac| br < ac).unwrap_or(false) && id_lt(&a.id, &b.id) {
                        witness = Some(a);
                    }
                }
            }
            if let Some(a) = witness {
                rep.viol(
                    "C08",
                    "C08:O2:first-delivery-order:across-responses",
                    format!("{}: first delivery of {} (id {}) at {} ms #{} definitely precedes the first delivery of {} (id {}) at {} ms #{}", short(sub), b.tag, b.id, b.vt / MS, b.seq, a.tag, a.id, a.vt / MS, a.seq),
                );
            }
            if latest_vt.map(|a| b.vt > a.vt).unwrap_or(true) {
                latest_vt = Some(b);
            }
            if b.pull_call_seq.is_some() && latest_call.map(|a| b.pull_call_seq > a.pull_call_seq).unwrap_or(true) {
                latest_call = Some(b);
            }
        }
    }
    st
}

pub struct IdentityStats {
    pub deliveries_checked: u64,
    pub tags_delivered_3_times: u64,
}

pub fn check_identity(h: &History, rep: &mut EpReport) -> IdentityStats {
    let mut st = IdentityStats { deliveries_checked: 0, tags_delivered_3_times: 0 };
    let mut id_to_tag: HashMap<String, String> = HashMap::new();
    // ids returned by Publish
    let mut published_id: HashMap<String, String> = HashMap::new();
    for o in h.ops.values() {
        if let Op::Publish { tags, .. } = &o.op {
            if let Some((_, _, Out::Ids(ids))) = &o.ret {
                for (i, t) in tags.iter().enumerate() {
                    if let Some(id) = ids.get(i) {
                        if t.is_empty() {
                            continue;
                        }
                        if let Some(prev) = id_to_tag.insert(id.clone(), t.clone()) {
                            if prev != *t {
                                rep.viol("C09", "C09:I1:id-reused", format!("message id {} was returned for {} and for {}", id, prev, t));
                            }
                        }
                        published_id.insert(t.clone(), id.clone());
                    }
                }
            }
        }
    }
    let mut times: HashMap<String, (i64, i32)> = HashMap::new();
    let mut count: HashMap<(String, String), u32> = HashMap::new();
    for e in &h.evs {
        if let EvKind::Deliver(d) = &e.kind {
            if d.tag.is_empty() {
                continue;
            }
            st.deliveries_checked += 1;
            *count.entry((d.sub.clone(), d.tag.clone())).or_insert(0) += 1;
            if let Some(pr) = h.published.get(&d.tag) {
                if pr.data_hash != d.data_hash || pr.data_len != d.data_len {
                    rep.viol("C09", "C09:I2:data-differs", format!("{} delivered on {} with {} data bytes (hash {:x}), published {} bytes (hash {:x})", d.tag, short(&d.sub), d.data_len, d.data_hash, pr.data_len, pr.data_hash));
                }
                if pr.attrs_hash != d.attrs_hash {
                    rep.viol("C09", "C09:I2:attributes-differ", format!("{} delivered on {} with different attributes", d.tag, short(&d.sub)));
                }
            }
            if let Some(id) = published_id.get(&d.tag) {
                if *id != d.msg_id {
                    rep.viol("C09", "C09:I1:message-id-differs", format!("{} delivered on {} with id {}, Publish returned {}", d.tag, short(&d.sub), d.msg_id, id));
                }
            } else if let Some(t) = id_to_tag.get(&d.msg_id) {
                if *t != d.tag {
                    rep.viol("C09", "C09:I1:id-reused", format!("delivery of {} carries id {} which Publish returned for {}", d.tag, d.msg_id, t));
                }
            }
            match times.get(&d.tag) {
                Some(t) if *t != d.publish_time => {
                    rep.viol("C09", "C09:I3:publish-time-changed", format!("{}: publish_time {:?} on one delivery and {:?} on another", d.tag, t, d.publish_time));
                }
                Some(_) => {}
                None => {
                    times.insert(d.tag.clone(), d.publish_time);
                }
            }
        }
    }
    st.tags_delivered_3_times = count.values().filter(|c| **c >= 3).count() as u64;
    st
}
