//! Offline checkers over recorded histories (DESIGN 3.2, Appendix B).

pub mod lease;
pub mod order;
pub mod wgl;
