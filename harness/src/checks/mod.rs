//! Offline checkers over recorded histories (DESIGN 3.2, Appendix B).
