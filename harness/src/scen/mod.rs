//! Scenarios: workload generators + the monitors that decide each property.

use crate::report::*;

pub mod common;
pub mod c12;

pub struct Plan {
    pub episodes: u64,
    /// The plan enumerates a finite family completely.
    pub exhaustive: bool,
    /// How cases are generated and what makes one non-trivial / distinct.
    pub rule: String,
}

pub struct Scenario {
    pub name: &'static str,
    pub plan: fn(&EpParams) -> Plan,
    pub run: fn(&EpParams) -> EpReport,
}

pub fn all() -> Vec<Scenario> {
    vec![
        Scenario { name: "c12", plan: c12::plan, run: c12::run },
    ]
}

pub fn names() -> Vec<&'static str> {
    all().iter().map(|s| s.name).collect()
}

pub fn find(name: &str) -> Option<Scenario> {
    all().into_iter().find(|s| s.name == name)
}
