//! Scenarios: workload generators + the monitors that decide each property.

use crate::report::*;

pub mod common;
pub mod conc;
pub mod c02;
pub mod c04;
pub mod c05;
pub mod c06;
pub mod c07;
pub mod c07p;
pub mod c12m;
pub mod c09;
pub mod c10;
pub mod c11;
pub mod c12;
pub mod c13;
pub mod c14;
pub mod c14r;
pub mod c15;
pub mod c16;
pub mod c17;
pub mod c18;

pub struct Plan {
    pub episodes: u64,
    /// The plan enumerates a finite family completely.
    pub exhaustive: bool,
    /// How cases are generated and what makes one non-trivial / distinct.
    pub rule: String,
}

pub struct Scenario {
    pub name: &'static str,
    pub plan: fn(&EpParams) -> Plan,
    pub run: fn(&EpParams) -> EpReport,
}

pub fn all() -> Vec<Scenario> {
    vec![
        Scenario { name: "conc", plan: conc::plan, run: conc::run },
        Scenario { name: "c02", plan: c02::plan, run: c02::run },
        Scenario { name: "c04", plan: c04::plan, run: c04::run },
        Scenario { name: "c05", plan: c05::plan, run: c05::run },
        Scenario { name: "c06", plan: c06::plan, run: c06::run },
        Scenario { name: "c07", plan: c07::plan, run: c07::run },
        Scenario { name: "c07p", plan: c07p::plan, run: c07p::run },
        Scenario { name: "c12m", plan: c12m::plan, run: c12m::run },
        Scenario { name: "c09", plan: c09::plan, run: c09::run },
        Scenario { name: "c10", plan: c10::plan, run: c10::run },
        Scenario { name: "c11", plan: c11::plan, run: c11::run },
        Scenario { name: "c12", plan: c12::plan, run: c12::run },
        Scenario { name: "c13", plan: c13::plan, run: c13::run },
        Scenario { name: "c14", plan: c14::plan, run: c14::run },
        Scenario { name: "c14r", plan: c14r::plan, run: c14r::run },
        Scenario { name: "c15", plan: c15::plan, run: c15::run },
        Scenario { name: "c16", plan: c16::plan, run: c16::run },
        Scenario { name: "c17", plan: c17::plan, run: c17::run },
        Scenario { name: "c18", plan: c18::plan, run: c18::run },
    ]
}

pub fn names() -> Vec<&'static str> {
    all().iter().map(|s| s.name).collect()
}

pub fn find(name: &str) -> Option<Scenario> {
    all().into_iter().find(|s| s.name == name)
}
