//! C13 — listing and pagination enumerate exactly the project's resources.
//!
//! SEQ episodes: resources are created (interleaved over three projects, with
//! deletions and re-creations before the walk), then every List RPC is walked
//! with every page size of the grid and compared with the creation-ordered
//! model list; hostile page tokens must be rejected with INVALID_ARGUMENT or
//! yield a contiguous in-order slice.

use super::common::*;
use super::Plan;
use crate::client::*;
use crate::rec::*;
use crate::report::*;
use crate::rng::Rng;
use crate::seq::Seq;
use crate::world::*;
use base64::Engine;

const COUNTS: [usize; 10] = [0, 1, 2, 19, 20, 21, 999, 1000, 1001, 1005];
const KINDS: [&str; 3] = ["topics", "subs", "topic_subs"];

fn reps(p: &EpParams) -> u64 {
    if p.engine == "miri" { 1 } else if tier_thorough(p) { 12 } else { 2 }
}

fn counts(p: &EpParams) -> Vec<usize> {
    if p.engine == "miri" {
        vec![3]
    } else if p.engine == "mt" {
        // worker threads, real clock: what matters is that one page holds many resources whose
        // actors answer on different threads (reply order is then not creation order by itself)
        vec![2, 21, 150, 1001]
    } else {
        COUNTS.to_vec()
    }
}

pub fn plan(p: &EpParams) -> Plan {
    let n = counts(p).len() as u64 * KINDS.len() as u64;
    Plan {
        episodes: n * reps(p),
        exhaustive: true,
        rule: format!(
            "grid: resource counts {:?} x RPC {:?} ({} seeded variants each: project mix over 3 projects, deletions and re-creations before the walk); per episode a complete walk for every page size in {{i32::MIN, -1, 0, 1, 2, n-1, n, n+1, 20, 1000, 1001, i32::MAX}} plus ~60 hostile tokens (issued tokens shifted by +-k, every truncation, random base64 of 0-16 bytes, non-base64, offsets 2^63 and 2^64-1). Non-trivial: a complete walk or a hostile token was answered. Distinct: (count, page size, RPC) / token class.",
            counts(p), KINDS, reps(p)
        ),
    }
}

pub fn run(p: &EpParams) -> EpReport {
    let mt = p.engine == "mt";
    let rt = episode_runtime(p.ep_seed, !mt, false, if mt { 4 } else { 1 });
    let p2 = p.clone();
    rt.block_on(async move { episode(&p2).await })
}

fn effective(size: i32) -> usize {
    if size == 0 {
        20
    } else if size > 1000 {
        1000
    } else {
        size as usize
    }
}

async fn list(cx: &Cx, kind: &str, scope: &str, size: i32, token: &str) -> Result<(Vec<String>, String), tonic::Status> {
    match kind {
        "topics" => cx.list_topics(scope, size, token).await,
        "subs" => cx.list_subs(scope, size, token).await.map(|(v, n)| (v.into_iter().map(|s| s.name).collect(), n)),
        _ => cx.list_topic_subs(scope, size, token).await,
    }
}

async fn episode(p: &EpParams) -> EpReport {
    let mut rep = EpReport::default();
    let idx = p.get_u64("index").unwrap_or(0);
    let cs = counts(p);
    let kind = KINDS[(idx % 3) as usize];
    let count = cs[((idx / 3) % cs.len() as u64) as usize];
    let mut rng = Rng::new(p.ep_seed);
    let w = World::new(transport_of(p), p.engine != "mt", None).await;
    let mut seq = Seq::new(&w);
    seq.check_stats_every_step = false;
    seq.settle_each_step = false;
    // The scope that is listed: project p1, or topic p1/t0 for topic_subs. Other projects
    // and topics are interleaved as decoys.
    let main_topic = topic_name(1, 0);
    let decoy_topic = topic_name(1, 900_000);
    if kind != "topics" {
        seq.create_topic(&main_topic).await;
        seq.create_topic(&decoy_topic).await;
        seq.create_topic(&topic_name(2, 0)).await;
    }
    let mut created = 0usize;
    let mut i = 0u32;
    while created < count {
        i += 1;
        // decoys: other project / other topic / prefix-sharing project
        if rng.chance(1, 4) {
            match kind {
                "topics" => {
                    let pr = *rng.pick(&[2u32, 11]);
                    seq.create_topic(&topic_name(pr, i)).await;
                }
                "subs" => {
                    seq.create_sub(&sub_name(2, i), &topic_name(2, 0), 10).await;
                }
                _ => {
                    seq.create_sub(&sub_name(1, 500_000 + i), &decoy_topic, 10).await;
                }
            }
        }
        match kind {
            "topics" => {
                seq.create_topic(&topic_name(1, i)).await;
            }
            "subs" => {
                let t = if rng.chance(1, 3) { decoy_topic.clone() } else { main_topic.clone() };
                seq.create_sub(&sub_name(1, i), &t, 10 + (i % 5) as i32).await;
            }
            _ => {
                seq.create_sub(&sub_name(1, i), &main_topic, 10).await;
            }
        }
        // now and then a create that is refused (subscription in the listed project, topic in another):
        // it must not show up in any listing
        if kind != "topics" && rng.chance(1, 12) {
            let ghost = sub_name(1, 700_000 + i);
            if seq.cx.create_sub(&ghost, &topic_name(2, 0), 10).await.is_ok() {
                rep.viol("C17", "C17:accepted:foreign-project-topic", "a subscription on a topic of another project was accepted");
            }
            rep.inc("refused_creates_before_the_walk");
        }
        created += 1;
        // deletions and re-creations before the walk (order after deletion)
        if count <= 25 && created > 1 && rng.chance(1, 5) {
            let victim = rng.range(1, i as u64) as u32;
            match kind {
                "topics" => {
                    let n = topic_name(1, victim);
                    if seq.m.topics.contains_key(&n) {
                        seq.delete_topic(&n).await;
                        if rng.chance(1, 2) {
                            seq.create_topic(&n).await;
                        } else {
                            created -= 1;
                        }
                    }
                }
                _ => {
                    let n = sub_name(1, victim);
                    if seq.m.subs.contains_key(&n) {
                        let t = seq.m.subs[&n].topic.clone();
                        seq.delete_sub(&n).await;
                        if rng.chance(1, 2) {
                            seq.create_sub(&n, &t, 10).await;
                        } else {
                            created -= 1;
                        }
                    }
                }
            }
        }
    }
    if count > 25 && count >= 999 && rng.chance(1, 2) {
        // a few deletions in a big namespace
        for _ in 0..3 {
            let victim = rng.range(1, i as u64) as u32;
            if kind == "topics" {
                seq.delete_topic(&topic_name(1, victim)).await;
            } else {
                seq.delete_sub(&sub_name(1, victim)).await;
            }
        }
    }
    seq.unexpected_status.retain(|f| !f.sig.contains("got=5")); // deleting an already deleted victim is fine
    let scope = if kind == "topic_subs" { main_topic.clone() } else { "projects/p1".to_string() };
    let want: Vec<String> = match kind {
        "topics" => seq.m.topics_in_project("projects/p1"),
        "subs" => seq.m.subs_in_project("projects/p1"),
        _ => seq.m.attached(&main_topic),
    };
    let n = want.len() as i32;
    let cx = seq.cx.clone();
    let mut sizes: Vec<i32> = vec![i32::MIN, -1, 0, 1, 2, n - 1, n, n + 1, 20, 1000, 1001, i32::MAX];
    sizes.retain(|s| *s != 0 || true);
    sizes.sort();
    sizes.dedup();
    let mut issued: Vec<(i32, String, usize)> = Vec::new(); // (size, token, offset it stands for)
    for size in sizes {
        if size < 0 {
            match list(&cx, kind, &scope, size, "").await {
                Err(s) if s.code() as i32 == INVALID_ARGUMENT => rep.inc("negative_size_rejected"),
                Err(s) => rep.viol("C13", format!("C13:negative-size:code={}", s.code() as i32), format!("page_size {} answered {}", size, s.code() as i32)),
                Ok(_) => rep.viol("C13", "C13:negative-size:accepted", format!("page_size {} was served", size)),
            }
            continue;
        }
        if size == 1 && n > 300 && !tier_thorough(p) {
            continue; // 1000 single-element pages: thorough tier only
        }
        let eff = effective(size);
        let mut got: Vec<String> = Vec::new();
        let mut token = String::new();
        let mut pages = 0;
        let mut ok = true;
        loop {
            match list(&cx, kind, &scope, size, &token).await {
                Ok((names, next)) => {
                    pages += 1;
                    if names.len() > eff {
                        rep.viol("C13", "C13:page-over-size", format!("{} {}: page of {} with page_size {} (effective {})", kind, n, names.len(), size, eff));
                    }
                    if names.is_empty() && !next.is_empty() {
                        rep.viol("C13", "C13:empty-page-with-token", format!("{}: empty page carries a next token", kind));
                    }
                    got.extend(names);
                    if next.is_empty() {
                        break;
                    }
                    if issued.len() < 24 {
                        issued.push((size, next.clone(), got.len()));
                    }
                    token = next;
                    if pages > 2500 {
                        rep.viol("C13", "C13:walk-does-not-end", format!("{} n={} size={}: {} pages and counting", kind, n, size, pages));
                        ok = false;
                        break;
                    }
                }
                Err(s) => {
                    rep.viol("C13", format!("C13:walk-status:code={}", s.code() as i32), format!("{} n={} size={} page {}: {}", kind, n, size, pages, s.message()));
                    ok = false;
                    break;
                }
            }
        }
        if ok && got != want {
            let missing = want.iter().filter(|x| !got.contains(x)).count();
            let extra = got.iter().filter(|x| !want.contains(x)).count();
            let dup = got.len() - got.iter().collect::<std::collections::BTreeSet<_>>().len();
            let class = if extra > 0 {
                "foreign"
            } else if dup > 0 {
                "duplicate"
            } else if missing > 0 {
                "missing"
            } else {
                "order"
            };
            rep.viol("C13", format!("C13:walk-differs:{}", class), format!("{} n={} size={}: walk yields {} names ({} missing, {} foreign, {} duplicated); first got {:?}, want {:?}", kind, n, size, got.len(), missing, extra, dup, got.iter().take(4).map(|s| short(s)).collect::<Vec<_>>(), want.iter().take(4).map(|s| short(s)).collect::<Vec<_>>()));
        }
        rep.inc("walks_completed");
        rep.extra_keys.push(format!("{}|n={}|size={}", kind, n, size));
    }
    // ---- hostile tokens -------------------------------------------------------------------------
    let b64 = base64::engine::general_purpose::STANDARD;
    let mut tokens: Vec<(String, &'static str)> = Vec::new();
    for (_, tok, _) in issued.iter().take(6) {
        if let Ok(bytes) = b64.decode(tok) {
            if bytes.len() == 8 {
                let v = u64::from_le_bytes(bytes.clone().try_into().unwrap());
                for k in [1i64, -1, 2, -2, 7, 1000, -1000] {
                    let nv = (v as i64).wrapping_add(k) as u64;
                    tokens.push((b64.encode(nv.to_le_bytes()), "issued-shifted"));
                }
            }
        }
        for cut in 1..tok.len() {
            tokens.push((tok[..cut].to_string(), "issued-truncated"));
            tokens.push((tok[cut..].to_string(), "issued-truncated"));
        }
    }
    for _ in 0..16 {
        let len = rng.below(17) as usize;
        let bytes: Vec<u8> = (0..len).map(|_| rng.below(256) as u8).collect();
        tokens.push((b64.encode(&bytes), "random-base64"));
    }
    for t in ["!", "****", "é", " ", "AAAA AAAA", "\u{0}", "AAAAAAAAAAA", "AAAAAAAAAAA=="] {
        tokens.push((t.to_string(), "non-base64"));
    }
    for v in [1u64 << 63, u64::MAX, u64::MAX - 1, (1u64 << 32) + 1, 1u64 << 62] {
        tokens.push((b64.encode(v.to_le_bytes()), "huge-offset"));
    }
    let mut tried = 0;
    rng.shuffle(&mut tokens);
    for (tok, class) in tokens.iter().take(if tier_thorough(p) { 200 } else { 60 }) {
        if tok.is_empty() {
            continue;
        }
        let size = *rng.pick(&[0, 1, 2, 1000, i32::MAX]);
        let r = tokio::time::timeout(std::time::Duration::from_secs(3600), list(&cx, kind, &scope, size, tok)).await;
        tried += 1;
        match r {
            Err(_) => rep.viol("C13", format!("C13:token-hang:{}", class), format!("token {:?} never answered", tok)),
            Ok(Err(s)) => {
                let c = s.code() as i32;
                if s.message().starts_with("PANIC:") {
                    rep.viol("C13", format!("C13:token-panic:{}", class), format!("token {:?} size {}: {}", tok, size, s.message()));
                } else if c != INVALID_ARGUMENT {
                    rep.viol("C13", format!("C13:token-status:{}:code={}", class, c), format!("token {:?} answered {}", tok, c));
                } else {
                    rep.inc("hostile_token_rejected");
                }
            }
            Ok(Ok((names, _next))) => {
                rep.inc("hostile_token_served");
                // a contiguous in-order slice of the model list, no longer than the effective size
                let eff = effective(size);
                let okslice = names.len() <= eff
                    && (names.is_empty() || {
                        match want.iter().position(|x| *x == names[0]) {
                            Some(pos) => want.len() >= pos + names.len() && want[pos..pos + names.len()] == names[..],
                            None => false,
                        }
                    });
                if !okslice {
                    rep.viol("C13", format!("C13:token-page-invalid:{}", class), format!("token {:?} size {}: page of {} is not a contiguous in-order slice of the {} resources", tok, size, names.len(), want.len()));
                }
            }
        }
        rep.extra_keys.push(format!("token|{}", class));
    }
    rep.add("hostile_tokens_tried", tried);
    // issued tokens continue exactly where the previous page ended
    for (size, tok, off) in issued.iter().take(8) {
        if let Ok((names, _)) = list(&cx, kind, &scope, *size, tok).await {
            let eff = effective(*size);
            let end = (*off + eff).min(want.len());
            if *off <= want.len() && names[..] != want[*off..end] {
                rep.viol("C13", "C13:issued-token-does-not-continue", format!("{}: token issued after {} items returns {:?}", kind, off, names.iter().take(3).collect::<Vec<_>>()));
            }
        }
    }
    seq.flush(&mut rep);
    rep.nontrivial = true;
    rep.key = format!("{} n={} variant={}", kind, count, idx / (3 * cs.len() as u64));
    rep.history = vec![format!("{}: {} resources listed under {}, {} walks, {} hostile tokens", kind, want.len(), scope, rep.counters.get("walks_completed").copied().unwrap_or(0), tried)];
    w.shutdown();
    rep
}
