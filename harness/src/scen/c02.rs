//! C02 — acknowledgement is final and affects only that delivery. Also the
//! shared SEQ alphabet used by C05 (and the Miri/ASan shards).
//!
//! Exhaustive enumeration of all operation sequences up to a length bound over
//! a 16-letter alphabet on a topic with two subscriptions, plus random longer
//! SEQ histories; every step is checked against the exact reference model,
//! including the stats of *every* subscription ("touches nothing else").

use super::common::*;
use super::Plan;
use crate::model::*;
use crate::rec::*;
use crate::report::*;
use crate::rng::Rng;
use crate::seq::Seq;
use crate::world::*;
use std::time::Duration;

pub const LETTERS: [&str; 17] = [
    "publish", "pull1", "pullall", "ack_oldest", "ack_newest", "ack_stale", "ack_unknown", "ack_again", "nack_oldest", "modify_oldest_30", "adv_before", "adv_past", "ack_dead_then_live",
    "ack_oldest_at_the_wire", "ack_dup_to_count", "ack_dead_to_count", "ack_two_oldest",
];

fn enum_len(p: &EpParams) -> u32 {
    p.get_u64("len").map(|v| v as u32).unwrap_or(if p.engine == "miri" {
        2
    } else if tier_thorough(p) {
        5
    } else {
        4
    })
}

pub fn n_enum(len: u32) -> u64 {
    (1..=len).map(|l| (LETTERS.len() as u64).pow(l)).sum()
}

pub fn decode(mut idx: u64, len: u32) -> Vec<usize> {
    let a = LETTERS.len() as u64;
    let mut l = 1;
    loop {
        let n = a.pow(l);
        if idx < n {
            break;
        }
        idx -= n;
        l += 1;
        if l > len {
            return vec![];
        }
    }
    let mut out = Vec::new();
    for _ in 0..l {
        out.push((idx % a) as usize);
        idx /= a;
    }
    out
}

fn n_random(p: &EpParams) -> u64 {
    p.get_u64("random").unwrap_or(if p.engine == "miri" {
        4
    } else if tier_thorough(p) {
        30_000
    } else {
        4_000
    })
}

pub fn plan(p: &EpParams) -> Plan {
    let len = enum_len(p);
    Plan {
        episodes: n_enum(len) + n_random(p),
        exhaustive: true,
        rule: format!(
            "all operation sequences of length 1..{} over {:?} applied to one subscription of a two-subscription topic (exhaustive: {} sequences), each followed by three deadline crossings with full pulls on both subscriptions; plus {} random SEQ histories of 40-80 steps over the same alphabet extended with the sibling subscription, streaming acks and larger batches (every 50th: one Acknowledge naming 1001-2600 deliveries). Non-trivial: >=1 certainly-effective ack followed by a later deadline crossing, or a stale/unknown/repeated ack. Distinct: the abstract operation sequence.",
            len, LETTERS, n_enum(len), n_random(p)
        ),
    }
}

pub fn run(p: &EpParams) -> EpReport {
    let rt = episode_runtime(p.ep_seed, true, false, 1);
    let p2 = p.clone();
    rt.block_on(async move { episode(&p2).await })
}

pub struct Ctx {
    pub t: String,
    pub s1: String,
    pub s2: String,
    pub past_ids: Vec<String>,
    pub last_acked: Option<String>,
    pub effective_acks: u64,
    pub odd_acks: u64,
    pub crossings_after_ack: u64,
    pub modifies: u64,
    pub nacks: u64,
    pub dup_nacks: u64,
    pub stream_acks: u64,
}

fn leases_sorted(seq: &Seq, sub: &str) -> Vec<(String, Lease)> {
    let mut v: Vec<(String, Lease)> = seq.m.subs.get(sub).map(|s| s.leases.iter().map(|(k, l)| (k.clone(), l.clone())).collect()).unwrap_or_default();
    v.sort_by_key(|(k, l)| (l.handed, k.parse::<u64>().unwrap_or(0)));
    v
}

pub async fn apply(seq: &mut Seq, c: &mut Ctx, letter: &str, sub: &str) {
    match letter {
        "publish" => {
            seq.publish(&c.t.clone(), 1).await;
        }
        "publish3" => {
            seq.publish(&c.t.clone(), 3).await;
        }
        "pull1" => {
            let ds = seq.pull(sub, 1, true).await;
            c.past_ids.extend(ds.iter().map(|d| d.ack_id.clone()));
        }
        "pullall" => {
            let ds = seq.pull(sub, 100, true).await;
            c.past_ids.extend(ds.iter().map(|d| d.ack_id.clone()));
        }
        "ack_oldest" | "ack_newest" => {
            let ls = leases_sorted(seq, sub);
            let pick = if letter == "ack_oldest" { ls.first() } else { ls.last() };
            match pick {
                Some((id, l)) => {
                    let certain = seq.now() < l.lo;
                    let id = id.clone();
                    seq.ack(sub, &[id.clone()]).await;
                    c.last_acked = Some(id);
                    if certain {
                        c.effective_acks += 1;
                    }
                }
                None => {
                    seq.ack(sub, &["424242".to_string()]).await;
                    c.odd_acks += 1;
                }
            }
        }
        "stream_ack_oldest" => {
            // the oldest lease is acknowledged over a StreamingPull stream of the subscription
            // (opened now if there is none yet; it is a consumer like any other from then on)
            if !seq.streams.contains_key(sub) {
                seq.open_stream(sub, 2).await;
            }
            let ls = leases_sorted(seq, sub);
            if let Some((id, l)) = ls.first() {
                let certain = seq.now() < l.lo;
                let id = id.clone();
                if seq.stream_ack(sub, &[id.clone()]).await {
                    c.last_acked = Some(id);
                    if certain {
                        c.effective_acks += 1;
                    }
                    c.stream_acks += 1;
                }
            }
        }
        "ack_oldest_at_the_wire" => {
            // the oldest lease is acknowledged 2 ms before its deadline and the clock then jumps
            // past the deadline before anything else can run
            let ls = leases_sorted(seq, sub);
            match ls.first() {
                Some((id, l)) => {
                    let now = seq.now();
                    if l.lo > now + 3 * MS {
                        seq.advance_to(l.lo - 2 * MS).await;
                    }
                    let certain = seq.now() < l.lo;
                    let id = id.clone();
                    seq.ack_then_jump(sub, &[id.clone()], Duration::from_millis(5)).await;
                    c.last_acked = Some(id);
                    if certain {
                        c.effective_acks += 1;
                        c.crossings_after_ack += 1;
                    }
                }
                None => {
                    seq.ack(sub, &["424247".to_string()]).await;
                    c.odd_acks += 1;
                }
            }
        }
        "ack_two_oldest" => {
            // one request naming the two oldest leases (consecutive IDs when they were pulled one
            // after the other), whatever their deadlines are by now; every other lease is a bystander
            let ls = leases_sorted(seq, sub);
            if ls.len() >= 2 {
                let now = seq.now();
                let certain = ls[..2].iter().filter(|(_, l)| now < l.lo).count() as u64;
                let ids: Vec<String> = ls[..2].iter().map(|x| x.0.clone()).collect();
                seq.ack(sub, &ids).await;
                c.last_acked = Some(ids[0].clone());
                c.effective_acks += certain;
            } else {
                seq.ack(sub, &["424249".to_string(), "424250".to_string()]).await;
                c.odd_acks += 1;
            }
        }
        "ack_dup_to_count" => {
            // one request that repeats the oldest live ID as many times as there are leases: it
            // acknowledges that one delivery and nothing else
            let ls = leases_sorted(seq, sub);
            match ls.first() {
                Some((id, l)) => {
                    let certain = seq.now() < l.lo;
                    let ids: Vec<String> = std::iter::repeat(id.clone()).take(ls.len().max(2)).collect();
                    seq.ack(sub, &ids).await;
                    c.last_acked = Some(id.clone());
                    if certain {
                        c.effective_acks += 1;
                    }
                    c.odd_acks += 1;
                }
                None => {
                    seq.ack(sub, &["424248".to_string(), "424248".to_string()]).await;
                    c.odd_acks += 1;
                }
            }
        }
        "ack_dead_to_count" => {
            // one request with as many IDs as there are leases, none of which is a lease (stale
            // IDs of this subscription first, unknown ones to fill up): it changes nothing
            let live: Vec<String> = seq.m.subs.get(sub).map(|s| s.leases.keys().cloned().collect()).unwrap_or_default();
            let mut ids: Vec<String> = c.past_ids.iter().rev().filter(|i| !live.contains(i)).take(live.len().max(1)).cloned().collect();
            let mut filler = 424_300u32;
            while ids.len() < live.len().max(1) {
                ids.push(filler.to_string());
                filler += 1;
            }
            seq.ack(sub, &ids).await;
            c.odd_acks += 1;
        }
        "ack_dead_then_live" => {
            // one request: a dead ID (stale, or unknown when nothing is stale yet) followed by every live ID
            let ls = leases_sorted(seq, sub);
            let live: Vec<String> = ls.iter().map(|x| x.0.clone()).collect();
            let dead = c.past_ids.iter().rev().find(|i| !live.contains(i)).cloned().unwrap_or_else(|| "424246".to_string());
            let now = seq.now();
            let certain = ls.iter().filter(|(_, l)| now < l.lo).count() as u64;
            let mut ids = vec![dead];
            ids.extend(live);
            seq.ack(sub, &ids).await;
            c.effective_acks += certain;
            c.odd_acks += 1;
        }
        "ack_stale" => {
            // an ID that was issued on this subscription and is no longer a lease
            let live: Vec<String> = seq.m.subs.get(sub).map(|s| s.leases.keys().cloned().collect()).unwrap_or_default();
            let stale = c.past_ids.iter().rev().find(|i| !live.contains(i)).cloned().unwrap_or_else(|| "424242".to_string());
            seq.ack(sub, &[stale]).await;
            c.odd_acks += 1;
        }
        "ack_unknown" => {
            seq.ack(sub, &["1000000".to_string(), "0".to_string()]).await;
            c.odd_acks += 1;
        }
        "ack_again" => {
            let id = c.last_acked.clone().unwrap_or_else(|| "424243".to_string());
            seq.ack(sub, &[id]).await;
            c.odd_acks += 1;
        }
        "nack_oldest" => {
            let ls = leases_sorted(seq, sub);
            let id = ls.first().map(|x| x.0.clone()).unwrap_or_else(|| "424244".to_string());
            // deliveries with an odd ack ID are nacked by a request that names the ID twice (legal;
            // the message must return to the queue once, not once per mention)
            if id.parse::<u64>().map(|v| v % 2 == 1).unwrap_or(false) {
                seq.modify(sub, &[id.clone(), id], 0).await;
                c.dup_nacks += 1;
            } else {
                seq.modify(sub, &[id], 0).await;
            }
            c.nacks += 1;
        }
        "modify_oldest_30" | "modify_newest_3" | "modify_oldest_700" => {
            let ls = leases_sorted(seq, sub);
            let pick = if letter == "modify_newest_3" { ls.last() } else { ls.first() };
            let id = pick.map(|x| x.0.clone()).unwrap_or_else(|| "424245".to_string());
            let secs = match letter {
                "modify_oldest_30" => 30,
                "modify_newest_3" => 3,
                _ => 700,
            };
            seq.modify(sub, &[id], secs).await;
            c.modifies += 1;
        }
        "adv_before" | "adv_past" => {
            // next deadline over both subscriptions
            let now = seq.now();
            let next = [c.s1.as_str(), c.s2.as_str()]
                .iter()
                .filter_map(|s| seq.m.subs.get(*s))
                .flat_map(|s| s.leases.values())
                .filter(|l| l.hi >= now)
                .map(|l| (l.lo, l.hi))
                .min();
            match next {
                Some((lo, hi)) => {
                    if letter == "adv_before" {
                        if lo > now + MS {
                            seq.advance_to(lo - MS).await;
                        } else {
                            seq.advance(Duration::from_millis(1)).await;
                        }
                    } else {
                        seq.advance_to(hi + MS).await;
                        if c.effective_acks > 0 {
                            c.crossings_after_ack += 1;
                        }
                    }
                }
                None => seq.advance(Duration::from_secs(1)).await,
            }
        }
        _ => {}
    }
}

/// Three deadline crossings with full pulls on both subscriptions: acked
/// messages never return, everything else keeps being redelivered.
pub async fn epilogue(seq: &mut Seq, c: &mut Ctx, crossings: u32) {
    for _ in 0..crossings {
        let now = seq.now();
        let target = [c.s1.as_str(), c.s2.as_str()]
            .iter()
            .filter_map(|s| seq.m.subs.get(*s))
            .flat_map(|s| s.leases.values())
            .map(|l| l.hi)
            .max()
            .unwrap_or(now);
        seq.advance_to(target + MS).await;
        if c.effective_acks > 0 {
            c.crossings_after_ack += 1;
        }
        for s in [c.s1.clone(), c.s2.clone()] {
            // repeated pulls must cover everything that is certainly available
            let mut guard = 0;
            while seq.m.certain_count(&s) > 0 && guard < 20 {
                let got = seq.pull(&s, 100, true).await;
                if got.is_empty() {
                    break;
                }
                guard += 1;
            }
        }
    }
}

async fn episode(p: &EpParams) -> EpReport {
    let mut rep = EpReport::default();
    let idx = p.get_u64("index").unwrap_or(0);
    let len = enum_len(p);
    let mut rng = Rng::new(p.ep_seed);
    let w = World::new(transport_of(p), true, Some(rng.below(100))).await;
    let mut seq = Seq::new(&w);
    let mut c = Ctx {
        t: topic_name(1, 1),
        s1: sub_name(1, 1),
        s2: sub_name(1, 2),
        past_ids: vec![],
        last_acked: None,
        effective_acks: 0,
        odd_acks: 0,
        crossings_after_ack: 0,
        modifies: 0,
        nacks: 0,
        dup_nacks: 0,
        stream_acks: 0,
    };
    seq.create_topic(&c.t.clone()).await;
    seq.create_sub(&c.s1.clone(), &c.t.clone(), 10).await;
    seq.create_sub(&c.s2.clone(), &c.t.clone(), if idx % 2 == 0 { 10 } else { 17 }).await;
    let letters: Vec<String>;
    if idx < n_enum(len) {
        // a publish and a pull first, so that every sequence has something to act on
        seq.publish(&c.t.clone(), 2).await;
        let ds = seq.pull(&c.s1.clone(), 1, true).await;
        c.past_ids.extend(ds.iter().map(|d| d.ack_id.clone()));
        let ds = seq.pull(&c.s2.clone(), 1, true).await;
        let _ = ds;
        let ls = decode(idx, len);
        letters = ls.iter().map(|i| LETTERS[*i].to_string()).collect();
        let s1 = c.s1.clone();
        for l in &letters {
            apply(&mut seq, &mut c, l, &s1).await;
        }
    } else if (idx - n_enum(len)) % 50 == 49 {
        // one Acknowledge naming 1001-2600 deliveries at once (more than any page or batch size inside
        // the server): every one of them is acknowledged, nothing comes back
        let n = *rng.pick(&[1001usize, 1500, 2047, 2600]);
        let s1 = c.s1.clone();
        let mut left = n;
        while left > 0 {
            let k = left.min(1000);
            seq.publish(&c.t.clone(), k).await;
            left -= k;
        }
        let mut ids: Vec<String> = Vec::new();
        for _ in 0..4 {
            let ds = seq.pull(&s1, 1000, true).await;
            if ds.is_empty() {
                break;
            }
            ids.extend(ds.iter().map(|d| d.ack_id.clone()));
        }
        let now = seq.now();
        let certain = seq.m.subs[&s1].leases.values().filter(|l| now < l.lo).count() as u64;
        seq.ack(&s1, &ids).await;
        c.effective_acks += certain;
        rep.add("acks_naming_more_than_1000_deliveries", 1);
        letters = vec![format!("mass_ack{}", n)];
    } else {
        let n = rng.range(40, 80);
        let ext = [
            "ack_dead_then_live", "ack_oldest_at_the_wire", "ack_dup_to_count", "ack_dead_to_count", "publish", "publish3", "pull1", "pullall", "ack_oldest", "ack_newest", "ack_stale", "ack_unknown", "ack_again", "nack_oldest", "modify_oldest_30", "modify_newest_3", "modify_oldest_700",
            "adv_before", "adv_past", "pull1", "ack_oldest", "publish", "stream_ack_oldest", "stream_ack_oldest", "ack_two_oldest",
        ];
        let mut ls = Vec::new();
        for _ in 0..n {
            let l = *rng.pick(&ext);
            let s = if rng.chance(2, 3) { c.s1.clone() } else { c.s2.clone() };
            apply(&mut seq, &mut c, l, &s).await;
            ls.push(format!("{}{}", l, if s == c.s1 { "" } else { "@2" }));
        }
        letters = ls;
    }
    epilogue(&mut seq, &mut c, 3).await;
    seq.flush(&mut rep);
    rep.nontrivial = (c.effective_acks > 0 && c.crossings_after_ack > 0) || c.odd_acks > 0;
    rep.add("effective_acks", c.effective_acks);
    rep.add("acks_sent_over_a_stream", c.stream_acks);
    rep.add("nacks_naming_one_id_twice", c.dup_nacks);
    rep.add("stale_unknown_repeated_acks", c.odd_acks);
    rep.add("deadline_crossings_after_ack", c.crossings_after_ack);
    rep.key = letters.join(",");
    rep.history = seq.history(120);
    if w.settle_inconclusive.load(std::sync::atomic::Ordering::Relaxed) > 0 {
        rep.inconclusive("barrier-did-not-stabilise");
    }
    w.shutdown();
    rep
}
