//! C15 — pull batches respect their size limit and are empty only when allowed.

use super::common::*;
use super::Plan;
use crate::client::*;
use crate::rec::*;
use crate::report::*;
use crate::rng::Rng;
use crate::seq::Seq;
use crate::world::*;
use std::time::Duration;

const LIMITS: [i32; 12] = [1, 2, 999, 1000, 1001, 65535, 65536, 65537, 131071, 131072, 196608, i32::MAX];
const BACKLOGS_ALL: [usize; 10] = [0, 1, 2, 999, 1000, 1001, 65535, 65536, 65537, 70000];
const BACKLOGS_QUICK: [usize; 7] = [0, 1, 2, 999, 1000, 1001, 3000];
const STREAM_LIMITS: [i64; 4] = [1, 2, 1000, 65535];
const STREAM_BACKLOGS: [usize; 5] = [0, 1, 5, 1001, 2500];

fn backlogs(p: &EpParams) -> Vec<usize> {
    if p.engine == "miri" {
        vec![0, 3]
    } else if tier_thorough(p) {
        BACKLOGS_ALL.to_vec()
    } else {
        BACKLOGS_QUICK.to_vec()
    }
}

fn limits(p: &EpParams) -> Vec<i32> {
    if p.engine == "miri" { vec![1, 2, 65536] } else { LIMITS.to_vec() }
}

fn only_big(p: &EpParams) -> bool {
    p.get_u64("only_big") == Some(1)
}

fn n_grid(p: &EpParams) -> u64 {
    if only_big(p) {
        return 0;
    }
    (limits(p).len() * backlogs(p).len()) as u64 * 2
}

fn n_stream(p: &EpParams) -> u64 {
    if only_big(p) { 0 } else if p.engine == "miri" { 2 } else { (STREAM_LIMITS.len() * STREAM_BACKLOGS.len()) as u64 }
}

fn n_random(p: &EpParams) -> u64 {
    if only_big(p) { 0 } else if p.engine == "miri" { 1 } else if tier_thorough(p) { 6000 } else { 600 }
}

/// Parked consumers x one very large publish (backlog sizes around the 16-bit wrap).
const BIG_PUBLISHES: [usize; 6] = [65_536, 65_537, 65_541, 70_000, 131_072, 131_075];

fn n_big(p: &EpParams) -> u64 {
    if p.engine == "miri" { 0 } else if tier_thorough(p) { 6 * 8 } else if only_big(p) { 6 * 4 } else { 6 * 2 }
}

/// Blocking pulls on a subscription whose topic was deleted (it lives on and still owes what it holds).
fn n_detached(p: &EpParams) -> u64 {
    if p.engine == "miri" || only_big(p) { 0 } else if tier_thorough(p) { 60 } else { 12 }
}

pub fn plan(p: &EpParams) -> Plan {
    Plan {
        episodes: n_grid(p) + n_stream(p) + n_random(p) + n_big(p) + n_detached(p),
        exhaustive: true,
        rule: format!(
            "grid: max_messages {:?} x backlog sizes {:?} x {{return_immediately, blocking}} (published in batches of 1000, pulls repeated until the backlog is drained); StreamingPull max_outstanding_messages {:?} x backlogs {:?}; blocking pulls on an empty subscription timed against the 5-minute limit on the virtual clock and woken by a later publish; plus {} random sequences of publishes and pulls with random limits; plus 2-4 parked consumers (Pull and StreamingPull, limits 1-10) met by ONE publish of 65536..131075 messages (every parked consumer must be served, within its limit); plus blocking pulls on a subscription whose topic was deleted while its only message is leased elsewhere (waits; woken by the nack). Non-trivial: a pull with backlog > limit or < limit, or a blocking pull timed against the limit. Distinct: (limit, backlog size, kind).",
            limits(p), backlogs(p), STREAM_LIMITS, STREAM_BACKLOGS, n_random(p)
        ),
    }
}

pub fn run(p: &EpParams) -> EpReport {
    let rt = episode_runtime(p.ep_seed, true, false, 1);
    let p2 = p.clone();
    rt.block_on(async move { episode(&p2).await })
}

async fn fill(seq: &mut Seq, t: &str, n: usize) {
    let mut left = n;
    while left > 0 {
        let k = left.min(1000);
        seq.publish(t, k).await;
        left -= k;
    }
}

async fn episode(p: &EpParams) -> EpReport {
    let mut rep = EpReport::default();
    let idx = p.get_u64("index").unwrap_or(0);
    let mut rng = Rng::new(p.ep_seed);
    let w = World::new(transport_of(p), true, Some(rng.below(100))).await;
    let mut seq = Seq::new(&w);
    seq.check_stats_every_step = false;
    seq.settle_each_step = false;
    let (t, s) = (topic_name(1, 1), sub_name(1, 1));
    seq.create_topic(&t).await;
    seq.create_sub(&s, &t, 600).await;
    let ls = limits(p);
    let bs = backlogs(p);
    if idx < n_grid(p) {
        let blocking = idx % 2 == 1;
        let limit = ls[((idx / 2) % ls.len() as u64) as usize];
        let backlog = bs[((idx / 2 / ls.len() as u64) % bs.len() as u64) as usize];
        fill(&mut seq, &t, backlog).await;
        let mut remaining = backlog;
        let mut pulls = 0;
        if backlog == 0 {
            if blocking {
                // an empty subscription: the pull waits for its 5-minute limit - no less, however
                // often it is woken in between without getting anything (empty publishes)
                let t0 = seq.now();
                {
                    let (cx, t2) = (Cx::new(&w, 8), t.clone());
                    let (d1, d2) = (rng.range(20, 140), rng.range(10, 100));
                    tokio::spawn(async move {
                        tokio::time::sleep(Duration::from_secs(d1)).await;
                        let _ = cx.publish(&t2, &[]).await;
                        tokio::time::sleep(Duration::from_secs(d2)).await;
                        let _ = cx.publish(&t2, &[]).await;
                    });
                }
                let got = seq.pull(&s, limit, false).await;
                let dt = seq.now() - t0;
                rep.obs("empty_blocking_pull_s", (dt / SEC) as i64);
                if !got.is_empty() {
                    rep.viol("C15", "C15:messages-from-nowhere", "pull on an empty subscription returned messages");
                }
                if got.is_empty() && dt < 300 * SEC {
                    rep.viol("C15", "C15:empty-before-wait-limit", format!("blocking Pull on an empty subscription returned empty after {} s (two empty wake-ups in between)", dt / SEC));
                }
                if dt > 301 * SEC {
                    rep.viol("C07", "C07:Q-term:blocking-pull-over-limit", format!("blocking Pull on an empty subscription returned after {} s", dt / SEC));
                }
                rep.inc("blocking_pull_timed_against_limit");
                // and a blocked pull is woken by a later publish, with at most `limit` messages
                let cx = Cx::new(&w, 9);
                let s2 = s.clone();
                let t_call = seq.now();
                let task = tokio::spawn(async move { cx.pull_op(&s2, limit, false).await });
                w.settle().await;
                let n_pub = 3usize;
                let t_pub = seq.now();
                seq.publish(&t, n_pub).await;
                w.settle().await;
                if !task.is_finished() {
                    rep.viol("C15", "C15:blocked-pull-not-woken", "a blocked Pull did not return after a publish");
                    rep.viol("C06", "C06:Q-wake:publish", "a blocked Pull did not return after a publish");
                    task.abort();
                } else if let Ok((_, Ok(ds))) = task.await {
                    let now = seq.now();
                    let items: Vec<(String, String, String)> = ds.iter().map(|d| (d.ack_id.clone(), d.tag.clone(), d.msg_id.clone())).collect();
                    seq.m.pulled(&s, &items, limit as i64, true, t_call.max(t_pub), now, Via::Pull);
                    rep.inc("blocked_pull_woken_by_publish");
                }
            } else {
                let got = seq.pull(&s, limit, true).await;
                if !got.is_empty() {
                    rep.viol("C15", "C15:messages-from-nowhere", "pull on an empty subscription returned messages");
                }
            }
        }
        while remaining > 0 && pulls < 200 {
            let got = seq.pull(&s, limit, !blocking).await; // limit and emptiness judged by the model
            pulls += 1;
            if got.is_empty() {
                break;
            }
            rep.obs(&format!("batch.limit{}.backlog{}", limit, backlog), got.len() as i64);
            remaining = remaining.saturating_sub(got.len());
        }
        if remaining > 0 && pulls < 200 {
            rep.viol("C15", "C15:backlog-not-drained", format!("limit {} backlog {}: {} messages never returned", limit, backlog, remaining));
        }
        if backlog > 0 && backlog <= 1001 {
            // everything is leased now (deadline 600 s): a blocking pull on the drained subscription
            // must wait for its limit even though earlier notifications were never consumed by a waiter
            let t0 = seq.now();
            let got = seq.pull(&s, limit, false).await; // the model flags an early empty answer
            let dt = seq.now() - t0;
            if got.is_empty() {
                rep.obs("drained_blocking_pull_s", (dt / SEC) as i64);
                rep.inc("blocking_pull_after_drain_timed");
            }
        }
        rep.nontrivial = true;
        rep.key = format!("limit={} backlog={} blocking={}", limit, backlog, blocking);
    } else if idx < n_grid(p) + n_stream(p) {
        let k = idx - n_grid(p);
        let limit = STREAM_LIMITS[(k % STREAM_LIMITS.len() as u64) as usize];
        let backlog = STREAM_BACKLOGS[((k / STREAM_LIMITS.len() as u64) % STREAM_BACKLOGS.len() as u64) as usize];
        fill(&mut seq, &t, backlog).await;
        match seq.open_stream(&s, limit).await {
            0 => {
                w.settle().await;
                seq.drain_streams();
                // more arrive while the stream is open
                seq.publish(&t, 7).await;
                w.settle().await;
                seq.drain_streams();
                let ds = seq.streams[&s].deliveries();
                let mut per_resp: std::collections::BTreeMap<u32, usize> = Default::default();
                for d in &ds {
                    *per_resp.entry(d.resp_no).or_insert(0) += 1;
                }
                for (r, n) in &per_resp {
                    rep.obs(&format!("stream_batch.limit{}", limit), *n as i64);
                    if *n as i64 > limit {
                        rep.viol("C15", "C15:over-limit:Stream", format!("StreamingPull response {} carries {} messages with max_outstanding_messages {}", r, n, limit));
                    }
                }
                if ds.len() != backlog + 7 {
                    rep.viol("C06", "C06:Q-wake:stream-left-messages", format!("open stream received {} of {} messages", ds.len(), backlog + 7));
                }
                rep.inc("stream_limit_checked");
            }
            c => rep.viol("C15", "C15:stream-open-failed", format!("max_outstanding_messages {}: status {}", limit, c)),
        }
        rep.nontrivial = true;
        rep.key = format!("stream limit={} backlog={}", limit, backlog);
    } else if idx >= n_grid(p) + n_stream(p) + n_random(p) + n_big(p) {
        // the topic is deleted while the subscription's only message is leased to consumer A; a
        // blocking Pull of consumer B finds nothing and waits (its limit is 5 minutes) until A's
        // nack makes the message available again
        let (t3, s3) = (topic_name(1, 3), sub_name(1, 3));
        let cx = Cx::new(&w, 30);
        cx.create_topic(&t3).await.ok();
        cx.create_sub(&s3, &t3, 600).await.ok();
        cx.publish(&t3, &[Msg::tagged("d0")]).await.ok();
        let held = cx.pull(&s3, 1, true).await.unwrap_or_default();
        let limit = *rng.pick(&[1, 5, 1000]);
        let wait_s = rng.range(2, 250);
        if held.len() == 1 && cx.delete_topic(&t3).await.is_ok() {
            w.settle().await;
            let (cb, s3b) = (Cx::new(&w, 31), s3.clone());
            let task = tokio::spawn(async move { cb.pull(&s3b, limit, false).await });
            w.advance(Duration::from_secs(wait_s)).await;
            if task.is_finished() {
                rep.viol("C15", "C15:empty-before-wait-limit:topic-deleted", format!("a blocking Pull on a subscription whose topic was deleted came back within {} s although nothing was available and its wait limit is 5 minutes", wait_s));
                task.abort();
            } else {
                let ids: Vec<String> = held.iter().map(|d| d.ack_id.clone()).collect();
                let _ = cx.modify(&s3, &ids, 0).await;
                w.settle().await;
                if !task.is_finished() {
                    rep.viol("C15", "C15:blocked-pull-not-woken:nack:topic-deleted", "a blocked Pull on a subscription whose topic was deleted did not return after the only message was nacked");
                    rep.viol("C06", "C06:Q-wake:nack:topic-deleted", "a blocked Pull on a subscription whose topic was deleted did not return after the only message was nacked");
                    task.abort();
                } else {
                    match task.await {
                        Ok(Ok(ds)) if ds.len() == 1 && ds[0].tag == "d0" => rep.inc("blocked_pull_on_detached_subscription_served"),
                        Ok(Ok(ds)) => rep.viol("C15", "C15:detached-pull-wrong-result", format!("the Pull woken by the nack returned {:?}", ds.iter().map(|d| d.tag.clone()).collect::<Vec<_>>())),
                        _ => rep.viol("C15", "C15:detached-pull-wrong-result", "the Pull woken by the nack returned an error"),
                    }
                }
            }
        } else {
            rep.inconclusive("detached family: set-up failed");
        }
        let _ = cx.delete_sub(&s3).await;
        rep.nontrivial = true;
        rep.key = format!("detached limit={} wait={}", limit, wait_s);
    } else if idx >= n_grid(p) + n_stream(p) + n_random(p) {
        // several parked consumers, then one publish that makes the backlog cross the 16-bit wrap
        let k = idx - (n_grid(p) + n_stream(p) + n_random(p));
        let n_pub = BIG_PUBLISHES[(k % BIG_PUBLISHES.len() as u64) as usize];
        let (t2, s2) = (topic_name(1, 2), sub_name(1, 2));
        let cx = Cx::new(&w, 20);
        cx.create_topic(&t2).await.ok();
        cx.create_sub(&s2, &t2, 600).await.ok();
        let n_wait = rng.range(2, 4);
        let mut waiters = Vec::new();
        let mut stream = None;
        for i in 0..n_wait {
            let lim = rng.range(1, 10) as i32;
            if i == n_wait - 1 && rng.chance(1, 3) {
                // the last parked consumer is an idle StreamingPull
                if let Ok(h) = Cx::new(&w, 40).open_stream(&s2, lim as i64).await {
                    stream = Some((lim, h));
                    continue;
                }
            }
            let c = Cx::new(&w, 21 + i as u32);
            let s3 = s2.clone();
            waiters.push((lim, tokio::spawn(async move { c.pull(&s3, lim, false).await })));
            w.settle().await;
        }
        w.settle().await;
        // every other episode: one message of 3.6 MB (legal: below the 4 MiB request limit) is
        // published first, on its own; it sits at the front of the backlog and must be handed to
        // a parked consumer like any other message, or nobody behind it is ever served
        if k % 2 == 1 {
            let mut m = Msg::tagged("heavy");
            m.data = b"T:heavy|".to_vec();
            m.data.resize(3_600_000, b'x');
            if cx.publish(&t2, &[m]).await.is_err() {
                rep.inconclusive("heavy publish failed");
            } else {
                rep.inc("heavy_message_published_to_parked_consumers");
            }
            w.settle().await;
        }
        let msgs: Vec<Msg> = (0..n_pub).map(|j| Msg::tagged(&format!("g{}", j))).collect();
        if cx.publish(&t2, &msgs).await.is_err() {
            rep.inconclusive("big publish failed");
        }
        w.settle().await;
        let mut served = 0;
        for (lim, h) in waiters {
            if !h.is_finished() {
                rep.viol("C15", "C15:blocked-pull-not-woken:big-backlog", format!("a Pull (max_messages {}) parked before a publish of {} messages is still waiting at quiescence", lim, n_pub));
                rep.viol("C06", "C06:Q-wake:publish:pull", format!("a parked Pull is still waiting although {} messages were published", n_pub));
                h.abort();
                continue;
            }
            match h.await {
                Ok(Ok(ds)) => {
                    if ds.is_empty() {
                        rep.viol("C15", "C15:empty-without-return-immediately", format!("a parked Pull returned empty after a publish of {} messages", n_pub));
                    } else if ds.len() > lim as usize {
                        rep.viol("C15", "C15:over-limit:Pull", format!("Pull with max_messages {} returned {} messages", lim, ds.len()));
                    } else {
                        served += 1;
                    }
                }
                _ => rep.inconclusive("parked pull failed"),
            }
        }
        if let Some((lim, h)) = &stream {
            let ds = h.deliveries();
            if ds.is_empty() {
                rep.viol("C15", "C15:blocked-pull-not-woken:big-backlog", format!("an idle StreamingPull (max_outstanding_messages {}) received nothing after a publish of {} messages", lim, n_pub));
                rep.viol("C06", "C06:Q-wake:publish:stream", format!("an idle StreamingPull received nothing although {} messages were published", n_pub));
            } else {
                served += 1;
                let mut per_resp: std::collections::BTreeMap<u32, usize> = Default::default();
                for d in &ds {
                    *per_resp.entry(d.resp_no).or_insert(0) += 1;
                }
                if per_resp.values().any(|n| *n > *lim as usize) {
                    rep.viol("C15", "C15:over-limit:Stream", format!("StreamingPull response carries more than max_outstanding_messages {}", lim));
                }
            }
        }
        rep.add("parked_consumers_served_by_big_publish", served);
        drop(stream);
        let _ = cx.delete_sub(&s2).await;
        rep.nontrivial = true;
        rep.key = format!("parked={} big_publish={}", n_wait, n_pub);
    } else {
        // random sequences of publishes and pulls with random limits
        let n = rng.range(15, 40);
        let mut ks = Vec::new();
        for _ in 0..n {
            match rng.below(5) {
                0 | 1 => {
                    let k = *rng.pick(&[1usize, 2, 3, 10, 200, 1000]);
                    seq.publish(&t, k).await;
                    ks.push(format!("pub{}", k));
                }
                2 => {
                    let l = *rng.pick(&[1, 2, 3, 5, 100, 999, 1000, 1001, 65535, 65536, 65537]);
                    seq.pull(&s, l, true).await;
                    ks.push(format!("pull{}", l));
                }
                3 => {
                    // blocking pull only when something is certainly available
                    if seq.m.certain_count(&s) > 0 {
                        let l = *rng.pick(&[1, 2, 7, 1000, 70000]);
                        seq.pull(&s, l, false).await;
                        ks.push(format!("bpull{}", l));
                    }
                }
                _ => {
                    seq.advance(Duration::from_millis(rng.range(1, 500))).await;
                    ks.push("adv".into());
                }
            }
        }
        rep.nontrivial = true;
        rep.key = ks.join(",");
    }
    seq.check_stats("Pull").await;
    seq.flush(&mut rep);
    rep.history = seq.history(40);
    w.shutdown();
    rep
}
