//! C10 — topic and subscription namespaces behave as atomic maps.
//!
//! 4-8 clients hammer a pool of 2 topic names and 3 subscription names in 2
//! projects with create / get / list / delete and data-plane calls, including
//! racing creates of one name and create racing delete; every incarnation of a
//! subscription gets a different ack deadline so that reads identify it. The
//! recorded history is checked per name by the WGL search of checks/wgl.rs.
//! Sequential part: the SEQ driver's status expectations (C10 signatures) in
//! every other scenario.

use super::common::*;
use super::conc::jitter;
use super::Plan;
use crate::checks::wgl;
use crate::client::*;
use crate::rec::*;
use crate::report::*;
use crate::rng::Rng;
use crate::world::*;
use std::sync::atomic::{AtomicU32, Ordering};
use std::sync::Arc;
use std::time::Duration;

pub fn plan(p: &EpParams) -> Plan {
    let n = if p.engine == "mt" {
        if tier_thorough(p) { 4_000 } else { 400 }
    } else if p.engine == "miri" {
        2
    } else if tier_thorough(p) {
        if p.transport == "h2" { 10_000 } else { 80_000 }
    } else {
        5_000
    };
    Plan {
        episodes: n,
        exhaustive: false,
        rule: "4-8 concurrent clients x 5-14 operations over a pool of 2 topic names and 3 subscription names in 2 projects: CreateTopic / DeleteTopic / GetTopic / ListTopics / ListTopicSubscriptions / Publish / CreateSubscription (a different ack deadline per incarnation; sometimes across projects or on a missing topic) / GetSubscription / ListSubscriptions / DeleteSubscription / Pull / Acknowledge / ModifyAckDeadline, seeded yields before every operation and at the server's schedule points; in half of the episodes 2-4 extra clients released together by a barrier issue the same create/delete on the same name for 2-5 rounds; half of the listings are paged walks (page size 1) whose token is used some calls later, when others may have deleted what it points past. Per-name WGL linearizability search with the two-point Delete of DESIGN 4/C10, followed at quiescence by a sequential sweep of every name (get, publish/pull, list, delete, get: all present-and-usable or all NOT_FOUND, and gone after the delete). Non-trivial: >=2 operations on one name overlapped. Distinct: per-name history shape (operation kinds, outcomes, overlap structure).".into(),
    }
}

pub fn run(p: &EpParams) -> EpReport {
    let mt = p.engine == "mt";
    let rt = episode_runtime(p.ep_seed, !mt, false, if mt { 4 } else { 1 });
    let p2 = p.clone();
    rt.block_on(async move { episode(&p2, mt).await })
}

async fn episode(p: &EpParams, mt: bool) -> EpReport {
    let mut rep = EpReport::default();
    let mut rng = Rng::new(p.ep_seed);
    let w = World::new(transport_of(p), !mt, Some(rng.below(100))).await;
    let topics = vec![topic_name(1, 1), topic_name(2, 1)];
    let subs = vec![sub_name(1, 1), sub_name(1, 2), sub_name(2, 1)];
    let c0 = Cx::new(&w, 0);
    // some names exist at the start, some do not
    if rng.chance(2, 3) {
        c0.create_topic(&topics[0]).await.ok();
        if rng.chance(1, 2) {
            c0.create_sub(&subs[0], &topics[0], 11).await.ok();
        }
    }
    if rng.chance(1, 3) {
        c0.create_topic(&topics[1]).await.ok();
    }
    let deadline_counter = Arc::new(AtomicU32::new(12));
    let n_clients = rng.range(4, 8);
    // (with barrier racers on top the other clients issue fewer calls: the per-name search is bounded at 62 operations)
    let racers_on = rng.chance(1, 2);
    let mut tasks = Vec::new();
    for c in 0..n_clients {
        let cx = Cx::new(&w, 1 + c as u32);
        let mut r = rng.fork(c);
        let (topics, subs) = (topics.clone(), subs.clone());
        let dc = Arc::clone(&deadline_counter);
        // a client biased towards one name produces racing creates / create-vs-delete on it
        let focus_t = r.pick(&topics).clone();
        let focus_s = r.pick(&subs).clone();
        tasks.push(tokio::spawn(async move {
            let n = if racers_on { r.range(4, 9) } else { r.range(5, 14) };
            // the page token of this client's last paged listing (it goes stale as others delete)
            let mut kept: Option<(u8, String, String)> = None;
            for _ in 0..n {
                jitter_small(&mut r, mt).await;
                let t = if r.chance(2, 3) { focus_t.clone() } else { r.pick(&topics).clone() };
                let s = if r.chance(2, 3) { focus_s.clone() } else { r.pick(&subs).clone() };
                match r.below(16) {
                    0 | 1 => {
                        let _ = cx.create_topic(&t).await;
                    }
                    2 | 3 => {
                        let _ = cx.delete_topic(&t).await;
                    }
                    4 => {
                        let _ = cx.get_topic(&t).await;
                    }
                    5 => {
                        let pr = if r.chance(1, 2) { "projects/p1" } else { "projects/p2" };
                        let _ = cx.list_topics(pr, 0, "").await;
                    }
                    6 => {
                        // half of the listings are paged walks, one page per call: the token is used
                        // some calls later, when the listing may have shrunk below its offset
                        if r.chance(1, 2) {
                            let _ = cx.list_topic_subs(&t, 0, "").await;
                        } else {
                            match kept.take() {
                                Some((0, scope, tok)) => {
                                    if let Ok((_, next)) = cx.list_topic_subs(&scope, 1, &tok).await {
                                        kept = Some((0, scope, next)).filter(|k| !k.2.is_empty());
                                    }
                                }
                                Some((1, scope, tok)) => {
                                    if let Ok((_, next)) = cx.list_subs(&scope, 1, &tok).await {
                                        kept = Some((1, scope, next)).filter(|k| !k.2.is_empty());
                                    }
                                }
                                Some((_, scope, tok)) => {
                                    if let Ok((_, next)) = cx.list_topics(&scope, 1, &tok).await {
                                        kept = Some((2, scope, next)).filter(|k| !k.2.is_empty());
                                    }
                                }
                                None => {
                                    let pr = if t.starts_with("projects/p1/") { "projects/p1" } else { "projects/p2" };
                                    kept = match r.below(3) {
                                        0 => cx.list_topic_subs(&t, 1, "").await.ok().map(|(_, next)| (0, t.clone(), next)),
                                        1 => cx.list_subs(pr, 1, "").await.ok().map(|(_, next)| (1, pr.to_string(), next)),
                                        _ => cx.list_topics(pr, 1, "").await.ok().map(|(_, next)| (2, pr.to_string(), next)),
                                    }
                                    .filter(|k| !k.2.is_empty());
                                }
                            }
                        }
                    }
                    7 => {
                        let _ = cx.publish(&t, &[Msg::tagged(&format!("x{}", r.below(1_000_000)))]).await;
                    }
                    8 | 9 | 10 => {
                        let d = dc.fetch_add(1, Ordering::SeqCst) as i32;
                        let _ = cx.create_sub(&s, &t, d).await;
                    }
                    11 | 12 => {
                        let _ = cx.delete_sub(&s).await;
                    }
                    13 => {
                        let _ = cx.get_sub(&s).await;
                    }
                    14 => {
                        let pr = if r.chance(1, 2) { "projects/p1" } else { "projects/p2" };
                        let _ = cx.list_subs(pr, 0, "").await;
                    }
                    _ => match r.below(3) {
                        0 => {
                            let _ = cx.pull(&s, 2, true).await;
                        }
                        // (a third of these carry no ack IDs at all: the name is looked up all the same)
                        1 => {
                            let ids = if r.chance(1, 3) { vec![] } else { vec!["1".to_string()] };
                            let _ = cx.ack(&s, &ids).await;
                        }
                        _ => {
                            let ids = if r.chance(1, 3) { vec![] } else { vec!["1".to_string()] };
                            let _ = cx.modify(&s, &ids, 15).await;
                        }
                    },
                }
            }
        }));
    }
    // racers: 2-4 clients released together by a barrier issue the *same* operation on the same
    // name, round after round (on worker threads this is as simultaneous as requests get: a
    // check-then-act on a name map has to survive it)
    if racers_on {
        let k = rng.range(2, 4) as usize;
        let rounds: Vec<(u64, String, String)> = (0..rng.range(2, 5)).map(|_| (rng.below(6), rng.pick(&topics).clone(), rng.pick(&subs).clone())).collect();
        let barrier = Arc::new(tokio::sync::Barrier::new(k));
        for i in 0..k {
            let cx = Cx::new(&w, 40 + i as u32);
            let (rounds, barrier, dc) = (rounds.clone(), Arc::clone(&barrier), Arc::clone(&deadline_counter));
            tasks.push(tokio::spawn(async move {
                for (kind, t, s) in rounds {
                    // the topic that goes with the subscription's project
                    let own_t = if s.starts_with("projects/p1/") { topic_name(1, 1) } else { topic_name(2, 1) };
                    barrier.wait().await;
                    match kind {
                        0 | 1 | 2 => {
                            let d = dc.fetch_add(1, Ordering::SeqCst) as i32;
                            let _ = cx.create_sub(&s, &own_t, d).await;
                        }
                        3 => {
                            let _ = cx.delete_sub(&s).await;
                        }
                        4 => {
                            let _ = cx.create_topic(&t).await;
                        }
                        _ => {
                            let _ = cx.delete_topic(&t).await;
                        }
                    }
                }
            }));
        }
        rep.inc("episodes_with_barrier_racers");
    }
    let all = async {
        for t in tasks.iter_mut() {
            let _ = t.await;
        }
    };
    let limit = if mt { Duration::from_secs(60) } else { Duration::from_secs(6 * 3600) };
    if tokio::time::timeout(limit, all).await.is_err() {
        for t in &tasks {
            t.abort();
        }
        if mt {
            rep.inconclusive("mt-watchdog: clients did not finish within 60 s of wall time");
        } else {
            rep.viol("C07", "C07:Q-term:clients-never-finished", "control-plane clients were still waiting for replies after six virtual hours");
        }
        w.shutdown();
        return rep;
    }
    w.settle().await;
    // a final sequential read of every name: whatever the race did, everybody now agrees
    for t in &topics {
        let _ = c0.get_topic(t).await;
    }
    for s in &subs {
        let _ = c0.get_sub(s).await;
    }
    let _ = c0.list_topics("projects/p1", 0, "").await;
    let _ = c0.list_subs("projects/p1", 0, "").await;
    let h = w.history();
    // ... and a name that is present can be used and removed, one that is absent cannot: with
    // nothing else going on, get / publish / delete of one topic (get / pull / delete of one
    // subscription) all see the same map entry
    for s in &subs {
        let got = c0.get_sub(s).await.map(|_| ()).map_err(|e| e.code() as i32);
        let pulled = c0.pull(s, 1, true).await.map(|_| ()).map_err(|e| e.code() as i32);
        let deleted = c0.delete_sub(s).await.map_err(|e| e.code() as i32);
        let after = c0.get_sub(s).await.map(|_| ()).map_err(|e| e.code() as i32);
        let fine = (got == Ok(()) && pulled == Ok(()) && deleted == Ok(()) || got == Err(NOT_FOUND) && pulled == Err(NOT_FOUND) && deleted == Err(NOT_FOUND)) && after == Err(NOT_FOUND);
        if !fine {
            rep.viol("C10", "C10:quiescent-name-inconsistent:subscription", format!("at quiescence, one after the other: GetSubscription({0}) -> {1:?}, Pull({0}) -> {2:?}, DeleteSubscription({0}) -> {3:?}, GetSubscription({0}) -> {4:?}", short(s), got, pulled, deleted, after));
        }
        rep.inc("names_swept_at_quiescence");
    }
    for t in &topics {
        let got = c0.get_topic(t).await.map(|_| ()).map_err(|e| e.code() as i32);
        let published = c0.publish(t, &[Msg::tagged("sweep")]).await.map(|_| ()).map_err(|e| e.code() as i32);
        let listed = c0.list_topic_subs(t, 0, "").await.map(|_| ()).map_err(|e| e.code() as i32);
        let deleted = c0.delete_topic(t).await.map_err(|e| e.code() as i32);
        let after = c0.get_topic(t).await.map(|_| ()).map_err(|e| e.code() as i32);
        let all_ok = got == Ok(()) && published == Ok(()) && listed == Ok(()) && deleted == Ok(());
        let all_absent = got == Err(NOT_FOUND) && published == Err(NOT_FOUND) && listed == Err(NOT_FOUND) && deleted == Err(NOT_FOUND);
        if !((all_ok || all_absent) && after == Err(NOT_FOUND)) {
            rep.viol("C10", "C10:quiescent-name-inconsistent:topic", format!("at quiescence, one after the other: GetTopic({0}) -> {1:?}, Publish({0}) -> {2:?}, ListTopicSubscriptions({0}) -> {3:?}, DeleteTopic({0}) -> {4:?}, GetTopic({0}) -> {5:?}", short(t), got, published, listed, deleted, after));
        }
        rep.inc("names_swept_at_quiescence");
    }
    let st = wgl::check(&h, &mut rep, &topics, &subs);
    for o in h.ops.values() {
        match &o.ret {
            Some((_, _, Out::Panic(m))) => rep.viol("C17", "C17:panic-in-handler", m.clone()),
            Some((_, _, Out::Status(c, m))) if *c == UNKNOWN || *c == UNAVAILABLE => rep.viol("C17", format!("C17:bad-status:{}:code={}", o.op.kind(), c), m.clone()),
            _ => {}
        }
    }
    rep.add("names_checked", st.names_checked);
    rep.add("linearized_operations", st.ops);
    rep.add("overlapping_operation_pairs", st.overlapping_pairs);
    rep.add("overlapping_double_delete_ok", st.double_delete_ok);
    rep.add("wgl_nodes", st.nodes);
    rep.add("wgl_budget_exhausted", st.budget_exhausted);
    rep.nontrivial = st.overlapping_pairs > 0;
    // distinctness: per-name shapes
    let mut shape: Vec<String> = Vec::new();
    for o in h.ops.values() {
        let name = o.op.sub().or(o.op.topic()).unwrap_or("");
        let c = o.ret.as_ref().map(|r| r.2.class()).unwrap_or_default();
        shape.push(format!("{}:{}:{}", short(name), o.op.kind(), c));
    }
    rep.key = format!("{}", crate::rng::fnv_str(&shape.join("|")));
    rep.history = h.abstract_lines(if rep.violations.is_empty() { 60 } else { 500 });
    w.shutdown();
    rep
}

async fn jitter_small(rng: &mut Rng, mt: bool) {
    for _ in 0..rng.below(4) {
        tokio::task::yield_now().await;
    }
    if mt {
        jitter(rng, true).await;
    } else if rng.chance(1, 10) {
        tokio::time::sleep(Duration::from_millis(rng.range(1, 20))).await;
    }
}
