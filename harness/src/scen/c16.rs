//! C16 — abandoned requests have all-or-nothing effect (crash-point enumeration).
//!
//! For every request kind R, every k (poll R's call future k times, then drop
//! it at that suspension point) and every saturation setting {idle, topic
//! mailbox full, subscription mailbox full, both}: let the system quiesce and
//! compare the client-visible state with the two admissible outcomes "R
//! completed" and "R never received" (DESIGN 4/C16). Direct transport only:
//! the handler future lives inside the client's call future, so dropping the
//! call drops the handler exactly at its k-th suspension point.

use super::common::*;
use super::Plan;
use crate::client::*;
use crate::rec::*;
use crate::report::*;
use crate::rng::Rng;
use crate::world::*;
use std::collections::{BTreeMap, BTreeSet};
use std::sync::Arc;
use std::time::Duration;

pub const KINDS: [&str; 23] = [
    "PublishBig", "CreateTopic", "CreateSub", "CreateSubPush", "Publish1", "Publish3", "PullRI", "PullBlockEmpty", "PullBlockReady", "Ack", "Nack", "Modify30",
    "DeleteSub", "DeleteTopic", "GetTopic", "GetSub", "ListTopics", "ListSubs", "ListTopicSubs", "StreamOpen", "StreamOpenEmpty", "Publish3WhileDeleting", "DeleteSubRetriedInBurst",
];
const K_MAX: u64 = 14;
const SETTINGS: [&str; 4] = ["idle", "topic-full", "sub-full", "both-full"];

fn family() -> u64 {
    KINDS.len() as u64 * K_MAX * SETTINGS.len() as u64
}

pub fn plan(p: &EpParams) -> Plan {
    let reps = if tier_thorough(p) { 40 } else { 2 };
    Plan {
        episodes: family() * reps,
        exhaustive: true,
        rule: format!(
            "crash points: {} request kinds x k=1..{} polls-then-drop x {} saturation settings, enumerated completely with hook yields off (first pass) and repeated with seeded yields ({} passes in this tier). Two kinds have company: Publish3WhileDeleting (a sibling subscription is deleted by another client at the same moment) and DeleteSubRetriedInBurst (the abandoned DeleteSubscription is sent again at once while 40 clients publish to the topic). Non-trivial: the call future was dropped before it completed. Distinct: (kind, k, setting, outcome applied/not-applied, yields on/off).",
            KINDS.len(), K_MAX, SETTINGS.len(), reps
        ),
    }
}

pub fn run(p: &EpParams) -> EpReport {
    let idx = p.get_u64("index").unwrap_or(0);
    let pass = idx / family();
    // first pass: exact enumeration without scheduler noise; later passes: seeded yields
    if pass == 0 {
        let _ = deltio::verif::uninstall();
        deltio::verif::install(p.ep_seed, false);
    }
    let rt = episode_runtime(p.ep_seed, true, false, 1);
    let p2 = p.clone();
    rt.block_on(async move { episode(&p2, idx % family(), pass).await })
}

#[derive(Clone, Debug, PartialEq)]
struct Snap {
    topics: BTreeSet<String>,
    subs: BTreeMap<String, String>, // name -> topic as reported
    tsubs: BTreeMap<String, BTreeSet<String>>,
    stats: BTreeMap<String, (usize, usize)>,
    push_registered: BTreeSet<String>,
}

async fn observe(w: &Arc<World>, cx: &Cx) -> Result<Snap, String> {
    let fut = async {
        let mut topics = BTreeSet::new();
        let mut subs = BTreeMap::new();
        for pr in ["projects/p1"] {
            let (ts, _) = cx.list_topics(pr, 1000, "").await.map_err(|e| format!("ListTopics: {}", e.message()))?;
            topics.extend(ts);
            let (ss, _) = cx.list_subs(pr, 1000, "").await.map_err(|e| format!("ListSubs: {}", e.message()))?;
            for s in ss {
                subs.insert(s.name.clone(), s.topic.clone());
            }
        }
        let mut tsubs = BTreeMap::new();
        for t in &topics {
            let (ss, _) = cx.list_topic_subs(t, 1000, "").await.map_err(|e| format!("ListTopicSubs: {}", e.message()))?;
            tsubs.insert(t.clone(), ss.into_iter().collect::<BTreeSet<_>>());
        }
        let mut stats = BTreeMap::new();
        for s in subs.keys() {
            if let Some(st) = w.stats(s).await {
                stats.insert(s.clone(), (st.outstanding, st.backlog));
            }
        }
        let push_registered = w.reg.entries().into_iter().map(|(n, _)| n.to_string()).collect();
        Ok::<Snap, String>(Snap { topics, subs, tsubs, stats, push_registered })
    };
    match tokio::time::timeout(Duration::from_secs(3600), fut).await {
        Ok(r) => r,
        Err(_) => Err("observation calls did not return within one virtual hour (wedge)".into()),
    }
}

async fn episode(p: &EpParams, case: u64, pass: u64) -> EpReport {
    let mut rep = EpReport::default();
    let kind = KINDS[(case / (K_MAX * SETTINGS.len() as u64)) as usize];
    let k = (case / SETTINGS.len() as u64) % K_MAX + 1;
    let setting = SETTINGS[(case % SETTINGS.len() as u64) as usize];
    let mut rng = Rng::new(p.ep_seed);
    let w = World::new(Transport::Direct, true, Some(rng.below(100))).await;
    let cx = Cx::new(&w, 0);
    let (t1, t2) = (topic_name(1, 1), topic_name(1, 2));
    let (s1, s2, s3, s4) = (sub_name(1, 1), sub_name(1, 2), sub_name(1, 3), sub_name(1, 4));
    let s9 = sub_name(1, 9);
    let t9 = topic_name(1, 9);
    cx.create_topic(&t1).await.ok();
    cx.create_topic(&t2).await.ok();
    for s in [&s1, &s2, &s3] {
        cx.create_sub(s, &t1, 10).await.ok();
    }
    cx.create_sub(&s4, &t2, 10).await.ok();
    let msgs: Vec<Msg> = (0..4).map(|i| Msg::tagged(&format!("m{}", i))).collect();
    cx.publish(&t1, &msgs).await.ok();
    let leases: Vec<String> = cx.pull(&s1, 2, true).await.map(|d| d.into_iter().map(|d| d.ack_id).collect()).unwrap_or_default();
    w.settle().await;
    let pre = match observe(&w, &cx).await {
        Ok(s) => s,
        Err(e) => {
            rep.inconclusive(format!("pre-observation failed: {}", e));
            return rep;
        }
    };

    // Which actors does R address?
    let (r_topic, r_sub): (&str, &str) = match kind {
        "CreateTopic" | "ListTopics" | "ListSubs" => (&t1, &s1),
        "CreateSub" | "CreateSubPush" | "Publish3" | "Publish3WhileDeleting" | "PublishBig" | "DeleteTopic" | "GetTopic" | "ListTopicSubs" => (&t1, &s2),
        "Publish1" => (&t2, &s4),
        "PullRI" | "PullBlockReady" | "StreamOpen" => (&t1, &s2),
        "PullBlockEmpty" | "StreamOpenEmpty" => (&t2, &s4),
        "Ack" | "Nack" | "Modify30" | "GetSub" => (&t1, &s1),
        "DeleteSub" | "DeleteSubRetriedInBurst" => (&t1, &s3),
        _ => (&t1, &s1),
    };

    // Saturate mailboxes with cheap requests spawned just before R.
    let mut noise = Vec::new();
    let n_noise = 20 + rng.below(8);
    if setting == "topic-full" || setting == "both-full" {
        for i in 0..n_noise {
            let c = Cx::new(&w, 100 + i as u32);
            let t = r_topic.to_string();
            noise.push(tokio::spawn(async move {
                let _ = c.list_topic_subs(&t, 0, "").await;
            }));
        }
    }
    if setting == "sub-full" || setting == "both-full" {
        for i in 0..n_noise {
            let c = Cx::new(&w, 200 + i as u32);
            let s = r_sub.to_string();
            noise.push(tokio::spawn(async move {
                let _ = c.get_sub(&s).await;
            }));
        }
    }
    let full_before = super::c07::hook_count("sub.mailbox_full") + super::c07::hook_count("topic.mailbox_full");

    // R itself, polled k times and then dropped. R runs as its own task spawned right
    // after the saturating calls, so that it is polled after them and before the actors
    // get to drain their mailboxes. A call that is still parked at quiescence with fewer
    // than k polls is dropped there (abandonment while waiting).
    let c1 = Cx::new(&w, 1);
    let ku = k as usize;
    let two = vec![Msg::tagged("r0"), Msg::tagged("r1")];
    type Fut = std::pin::Pin<Box<dyn std::future::Future<Output = Option<StreamHandle>> + Send>>;
    let fut: Fut = {
        let (t1, t2, t9, s1, s2, s3, s4, s9) = (t1.clone(), t2.clone(), t9.clone(), s1.clone(), s2.clone(), s3.clone(), s4.clone(), s9.clone());
        let leases = leases.clone();
        let c1 = c1.clone();
        match kind {
            "CreateTopic" => Box::pin(async move { c1.create_topic(&t9).await.ok(); None }),
            "CreateSub" => Box::pin(async move { c1.create_sub(&s9, &t1, 10).await.ok(); None }),
            "CreateSubPush" => Box::pin(async move { c1.create_sub_full(&s9, &t1, 10, Some("http://127.0.0.1:1/push"), Default::default()).await.ok(); None }),
            "Publish1" => Box::pin(async move { c1.publish(&t2, &two).await.ok(); None }),
            "Publish3" | "Publish3WhileDeleting" => Box::pin(async move { c1.publish(&t1, &two).await.ok(); None }),
            "PublishBig" => Box::pin(async move {
                // a request far larger than any internal batching threshold: still all-or-nothing
                let big: Vec<Msg> = (0..2500).map(|i| Msg::tagged(&format!("big{}", i))).collect();
                c1.publish(&t1, &big).await.ok();
                None
            }),
            "PullRI" => Box::pin(async move { c1.pull(&s2, 3, true).await.ok(); None }),
            "PullBlockEmpty" => Box::pin(async move { c1.pull(&s4, 3, false).await.ok(); None }),
            "PullBlockReady" => Box::pin(async move { c1.pull(&s2, 3, false).await.ok(); None }),
            "Ack" => Box::pin(async move { c1.ack(&s1, &leases).await.ok(); None }),
            "Nack" => Box::pin(async move { c1.modify(&s1, &leases, 0).await.ok(); None }),
            "Modify30" => Box::pin(async move { c1.modify(&s1, &leases, 30).await.ok(); None }),
            "DeleteSub" | "DeleteSubRetriedInBurst" => Box::pin(async move { c1.delete_sub(&s3).await.ok(); None }),
            "DeleteTopic" => Box::pin(async move { c1.delete_topic(&t1).await.ok(); None }),
            "GetTopic" => Box::pin(async move { c1.get_topic(&t1).await.ok(); None }),
            "GetSub" => Box::pin(async move { c1.get_sub(&s1).await.ok(); None }),
            "ListTopics" => Box::pin(async move { c1.list_topics("projects/p1", 0, "").await.ok(); None }),
            "ListSubs" => Box::pin(async move { c1.list_subs("projects/p1", 0, "").await.ok(); None }),
            "ListTopicSubs" => Box::pin(async move { c1.list_topic_subs(&t1, 0, "").await.ok(); None }),
            "StreamOpen" => Box::pin(async move { c1.open_stream(&s2, 2).await.ok() }),
            _ => Box::pin(async move { c1.open_stream(&s4, 2).await.ok() }),
        }
    };
    // Publish3WhileDeleting: another client deletes a sibling subscription of the topic at the same
    // moment (that request is not abandoned); the abandoned publish is still all-or-nothing for the
    // subscriptions that remain
    let mut other_delete = None;
    if kind == "Publish3WhileDeleting" {
        let (c2, s3b) = (Cx::new(&w, 2), s3.clone());
        other_delete = Some(tokio::spawn(async move { c2.delete_sub(&s3b).await }));
    }
    // DeleteSubRetriedInBurst: the client that gave up on its DeleteSubscription sends it again at once
    // (that one is awaited), while 40 other clients publish one message each to the topic: more
    // than a subscription mailbox holds
    let mut retried_delete = None;
    let mut burst = Vec::new();
    if kind == "DeleteSubRetriedInBurst" {
        let (c2, s3b) = (Cx::new(&w, 2), s3.clone());
        retried_delete = Some(tokio::spawn(async move { c2.delete_sub(&s3b).await }));
        for i in 0..40u32 {
            let (c, t) = (Cx::new(&w, 300 + i), t1.clone());
            burst.push(tokio::spawn(async move { c.publish(&t, &[Msg::tagged(&format!("burst{}", i))]).await.is_ok() }));
        }
    }
    let polls_seen = Arc::new(std::sync::atomic::AtomicUsize::new(0));
    let ps = Arc::clone(&polls_seen);
    let r_task = tokio::spawn(async move {
        let lim = Limit::new(fut, ku);
        let (r, polls) = lim.await;
        ps.store(polls, std::sync::atomic::Ordering::SeqCst);
        r
    });
    w.settle().await;
    let mut stream_handle = None;
    let (completed, polls): (bool, usize) = if r_task.is_finished() {
        match r_task.await {
            Ok(Some(h)) => {
                stream_handle = h;
                (true, polls_seen.load(std::sync::atomic::Ordering::SeqCst))
            }
            _ => (false, polls_seen.load(std::sync::atomic::Ordering::SeqCst)),
        }
    } else {
        r_task.abort();
        rep.inc("dropped_while_parked");
        (false, 0)
    };
    let full_after = super::c07::hook_count("sub.mailbox_full") + super::c07::hook_count("topic.mailbox_full");
    // An opened stream is read for a moment and then abandoned as well.
    if let Some(mut h) = stream_handle.take() {
        for _ in 0..(k % 4) {
            tokio::task::yield_now().await;
        }
        h.abort();
    }
    rep.obs(&format!("polls_to_complete.{}.{}", kind, setting), if completed { polls as i64 } else { (polls + 1) as i64 });

    // Quiescence; the saturating calls must all return.
    w.settle().await;
    w.advance(Duration::from_secs(1)).await;
    let noise_pending = noise.iter().filter(|h| !h.is_finished()).count();
    if noise_pending > 0 {
        w.advance(Duration::from_secs(3600)).await;
        let still = noise.iter().filter(|h| !h.is_finished()).count();
        if still > 0 {
            rep.viol("C16", format!("C16:wedge:{}@{}", kind, setting), format!("{} saturating calls never returned after {} was abandoned at poll {}", still, kind, k));
        }
    }
    for h in &noise {
        h.abort();
    }

    let label = format!("{}@poll{}+{}", kind, k, setting);
    let post = match observe(&w, &cx).await {
        Ok(s) => s,
        Err(e) => {
            rep.viol("C16", format!("C16:wedge:{}@{}", kind, setting), format!("after {}: {}", label, e));
            rep.history = w.history().abstract_lines(200);
            return rep;
        }
    };

    let mut pre = pre;
    if let Some(h) = other_delete {
        match tokio::time::timeout(Duration::from_secs(3600), h).await {
            Ok(Ok(Ok(()))) => {
                pre.subs.remove(&s3);
                if let Some(x) = pre.tsubs.get_mut(&t1) {
                    x.remove(&s3);
                }
                pre.stats.remove(&s3);
            }
            _ => rep.viol("C16", format!("C16:wedge:{}@{}", kind, setting), "the DeleteSubscription of the sibling subscription did not return OK".to_string()),
        }
    }
    if let Some(h) = retried_delete {
        match tokio::time::timeout(Duration::from_secs(3600), h).await {
            Ok(Ok(r)) => {
                if matches!(r.as_ref().map_err(|e| e.code() as i32), Ok(()) | Err(NOT_FOUND)) {
                    pre.subs.remove(&s3);
                    if let Some(x) = pre.tsubs.get_mut(&t1) {
                        x.remove(&s3);
                    }
                    pre.stats.remove(&s3);
                }
                rep.inc("retried_deletes_answered");
            }
            _ => rep.viol("C16", format!("C16:wedge:{}@{}", kind, setting), format!("after {}: the DeleteSubscription sent again was never answered", label)),
        }
        let mut ok = 0;
        for (i, b) in burst.into_iter().enumerate() {
            match tokio::time::timeout(Duration::from_secs(3600), b).await {
                Ok(Ok(true)) => ok += 1,
                Ok(_) => {}
                Err(_) => {
                    rep.viol("C16", format!("C16:wedge:{}@{}", kind, setting), format!("after {}: publish {} of the burst to the topic never completed", label, i));
                    break;
                }
            }
        }
        for s in [&s1, &s2, &s3] {
            if let Some(e) = pre.stats.get_mut(s) {
                e.1 += ok;
            }
        }
    }
    // --- invariants that hold whatever R did ---------------------------------------------------
    for (s, t) in &post.subs {
        if post.topics.contains(t) {
            let attached = post.tsubs.get(t).map(|x| x.contains(s)).unwrap_or(false);
            if !attached {
                rep.viol("C16", format!("C16:attach:{}@poll{}+{}", kind, k.min(3), setting), format!("after {}: subscription {} exists on live topic {} but is not attached (ListTopicSubscriptions = {:?})", label, short(s), short(t), post.tsubs.get(t)));
            }
        }
    }
    for (t, ss) in &post.tsubs {
        for s in ss {
            if !post.subs.contains_key(s) {
                rep.viol("C16", format!("C16:dangling-attachment:{}+{}", kind, setting), format!("after {}: topic {} lists {} which does not exist", label, short(t), short(s)));
            }
        }
    }
    for s in &post.push_registered {
        if !post.subs.contains_key(s) {
            rep.viol("C16", format!("C16:push-registry-residue:{}+{}", kind, setting), format!("after {}: push registry still holds {} which does not exist", label, short(s)));
        }
    }

    // --- applied / not applied -------------------------------------------------------------------
    let mut applied = pre.clone();
    let mut leased_by_r: BTreeMap<String, usize> = BTreeMap::new();
    match kind {
        "CreateTopic" => {
            applied.topics.insert(t9.clone());
            applied.tsubs.insert(t9.clone(), BTreeSet::new());
        }
        "CreateSub" | "CreateSubPush" => {
            applied.subs.insert(s9.clone(), t1.clone());
            applied.tsubs.get_mut(&t1).unwrap().insert(s9.clone());
            applied.stats.insert(s9.clone(), (0, 0));
            if kind == "CreateSubPush" {
                applied.push_registered.insert(s9.clone());
            }
        }
        "Publish1" => {
            applied.stats.get_mut(&s4).unwrap().1 += 2;
        }
        "Publish3" => {
            for s in [&s1, &s2, &s3] {
                applied.stats.get_mut(s).unwrap().1 += 2;
            }
        }
        "Publish3WhileDeleting" => {
            for s in [&s1, &s2] {
                applied.stats.get_mut(s).unwrap().1 += 2;
            }
        }
        "PublishBig" => {
            for s in [&s1, &s2, &s3] {
                applied.stats.get_mut(s).unwrap().1 += 2500;
            }
        }
        "PullRI" | "PullBlockReady" => {
            let e = applied.stats.get_mut(&s2).unwrap();
            e.0 += 3;
            e.1 -= 3;
            leased_by_r.insert(s2.clone(), 3);
        }
        "StreamOpen" => {
            // a stream with max_outstanding 2 that was read for a while may have pulled 0, 2 or 4 messages
        }
        "Ack" => {
            applied.stats.get_mut(&s1).unwrap().0 -= 2;
        }
        "Nack" => {
            let e = applied.stats.get_mut(&s1).unwrap();
            e.0 -= 2;
            e.1 += 2;
        }
        "DeleteSub" | "DeleteSubRetriedInBurst" => {
            applied.subs.remove(&s3);
            applied.tsubs.get_mut(&t1).unwrap().remove(&s3);
            applied.stats.remove(&s3);
        }
        "DeleteTopic" => {
            applied.topics.remove(&t1);
            applied.tsubs.remove(&t1);
            for s in [&s1, &s2, &s3] {
                applied.subs.insert((*s).clone(), "_deleted_topic_".into());
            }
        }
        _ => {}
    }
    let is_applied;
    if kind == "StreamOpen" {
        // structure must be unchanged; the subscription's messages are conserved
        let mut a = post.clone();
        a.stats = pre.stats.clone();
        let (o, b) = post.stats.get(&s2).copied().unwrap_or((0, 0));
        let (po, pb) = pre.stats.get(&s2).copied().unwrap_or((0, 0));
        if a != pre || o + b != po + pb {
            rep.viol("C16", format!("C16:state:{}+{}", kind, setting), format!("after {}: {:?} vs before {:?}", label, post, pre));
        }
        is_applied = o > po;
        leased_by_r.insert(s2.clone(), o - po.min(o));
    } else if post == applied {
        is_applied = true;
    } else if post == pre {
        is_applied = false;
    } else {
        is_applied = false;
        rep.viol(
            "C16",
            format!("C16:state:{}+{}", kind, setting),
            format!("after {}: state is neither 'completed' nor 'never received'. before={:?} after={:?}", label, pre, post),
        );
    }
    if completed && !is_applied && !matches!(kind, "GetTopic" | "GetSub" | "ListTopics" | "ListSubs" | "ListTopicSubs" | "Modify30" | "PullBlockEmpty" | "StreamOpen" | "StreamOpenEmpty") {
        rep.viol("C16", format!("C16:completed-but-not-applied:{}", kind), label.clone());
    }

    // --- probes: every existing subscription of a live topic receives a new publish -----------------
    let mut expected_total: BTreeMap<String, usize> = BTreeMap::new();
    for (s, (o, b)) in &post.stats {
        expected_total.insert(s.clone(), o + b);
    }
    for t in post.topics.iter() {
        let r = tokio::time::timeout(Duration::from_secs(3600), cx.publish(t, &[Msg::tagged(&format!("probe-{}", short(t)))])).await;
        match r {
            Err(_) => {
                rep.viol("C16", format!("C16:wedge:{}@{}", kind, setting), format!("after {}: probe publish to {} never returned", label, short(t)));
            }
            Ok(Err(e)) => {
                rep.viol("C16", format!("C16:probe-publish-status:{}:code={}", kind, e.code() as i32), format!("after {}: {}", label, e.message()));
            }
            Ok(Ok(_)) => {
                for (s, st) in &post.subs {
                    if st == t {
                        *expected_total.entry(s.clone()).or_insert(0) += 1;
                    }
                }
            }
        }
    }
    // An abandoned pull was served or it was not: what a consumer finds right afterwards (nothing can
    // have expired or been nacked yet) are first deliveries, in publish order.
    if matches!(kind, "PullRI" | "PullBlockReady" | "StreamOpen") {
        if let Ok(ds) = cx.pull(r_sub, 100, true).await {
            let ids: Vec<u128> = ds.iter().filter_map(|d| d.msg_id.parse::<u128>().ok()).collect();
            if ids.windows(2).any(|p| p[0] >= p[1]) {
                let tags: Vec<&str> = ds.iter().map(|d| d.tag.as_str()).collect();
                rep.viol("C16", format!("C16:order-after-abandoned:{}+{}", kind, setting), format!("after {}: a consumer finds {:?} (message ids {:?}): neither 'served' nor 'never received'", label, tags, ids));
                rep.viol("C08", "C08:O1:first-delivery-order:after-abandoned-pull", format!("after {}: first deliveries {:?} are not in publish order", label, tags));
            }
            rep.inc("order_checked_after_abandoned_pull");
        }
    }
    // Everything handed to an abandoned consumer comes back after its deadline (30 s for Modify30: go past it).
    w.advance(Duration::from_secs(45)).await;
    w.settle().await;
    for (s, want) in &expected_total {
        match w.stats(s).await {
            Some(st) => {
                let have = st.outstanding + st.backlog;
                // Only a push subscription's messages may be outstanding (there is no push loop here).
                if have != *want {
                    rep.viol("C16", format!("C16:accounting:{}+{}", kind, setting), format!("after {}: {} holds {} messages, expected {}", label, short(s), have, want));
                } else if st.outstanding != 0 {
                    rep.viol("C16", format!("C16:not-redelivered:{}+{}", kind, setting), format!("after {}: {} still has {} outstanding 45 s later", label, short(s), st.outstanding));
                }
            }
            None => {
                rep.viol("C16", format!("C16:wedge-or-vanished:{}+{}", kind, setting), format!("after {}: {} does not answer", label, short(s)));
            }
        }
    }

    // --- nothing is wedged: every subscription can still be deleted, and its name used again -----------
    for (s, t) in post.subs.iter() {
        match tokio::time::timeout(Duration::from_secs(3600), cx.delete_sub(s)).await {
            Err(_) => {
                rep.viol("C16", format!("C16:wedge:delete-after:{}+{}", kind, setting), format!("after {}: DeleteSubscription {} was never answered", label, short(s)));
                continue;
            }
            Ok(Err(e)) => {
                rep.viol("C16", format!("C16:delete-after:{}:code={}", kind, e.code() as i32), format!("after {}: DeleteSubscription of the existing {} answered {}", label, short(s), e.message()));
                continue;
            }
            Ok(Ok(())) => {}
        }
        if !post.topics.contains(t) {
            continue;
        }
        match tokio::time::timeout(Duration::from_secs(3600), cx.create_sub(s, t, 10)).await {
            Ok(Ok(_)) => {
                w.settle().await;
                let listed = cx.list_topic_subs(t, 1000, "").await.map(|(v, _)| v.contains(s)).unwrap_or(false);
                if !listed {
                    rep.viol("C16", format!("C16:attach:recreated-after:{}+{}", kind, setting), format!("after {}: {} deleted and created again on {} is not attached", label, short(s), short(t)));
                }
                rep.inc("names_reused_after_abandonment");
            }
            Ok(Err(e)) => rep.viol("C16", format!("C16:recreate-after:{}:code={}", kind, e.code() as i32), format!("after {}: creating {} again answered {}", label, short(s), e.message())),
            Err(_) => rep.viol("C16", format!("C16:wedge:recreate-after:{}+{}", kind, setting), format!("after {}: creating {} again was never answered", label, short(s))),
        }
    }

    rep.nontrivial = !completed;
    if !completed {
        rep.inc("abandoned_mid_flight");
        if full_after > full_before || full_before > 0 {
            rep.inc("abandoned_with_full_mailbox_seen");
        }
    } else {
        rep.inc("completed_within_k");
        if k == K_MAX {
            // fine: completed
        }
    }
    if !completed && k == K_MAX && !matches!(kind, "PullBlockEmpty" | "StreamOpenEmpty") {
        rep.inconclusive(format!("k_max reached without completion: {}+{}", kind, setting));
    }
    rep.key = format!("{} k={} {} applied={} yields={}", kind, k, setting, is_applied, pass > 0);
    if !rep.violations.is_empty() || (case % 97 == 0) {
        rep.history = w.history().abstract_lines(200);
    } else {
        rep.history = vec![format!("{} -> completed={} polls={} applied={}", label, completed, polls, is_applied)];
    }
    w.shutdown();
    rep
}

