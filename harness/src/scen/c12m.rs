//! C12 (and C07) on real worker threads: requests that reach a subscription in the very instant
//! in which it goes away.
//!
//! On the single-thread virtual-time engine a request is put into an actor's mailbox in one step.
//! On worker threads "reserve a slot" and "put the request in" are two steps of the sender, and the
//! subscription's actor may stop in between: what happens to such a request cannot be seen on the
//! simulated engine at all. This scenario runs rounds of
//!
//!   fresh subscription -> 3 parked Pulls (+ sometimes an open StreamingPull) -> DeleteSubscription
//!   together with a handful of other requests (Acknowledge, ModifyAckDeadline, GetSubscription,
//!   Pull(return_immediately), a second DeleteSubscription) issued at the same moment
//!
//! on a 6-worker runtime with the real clock, as fast as they go.
//!
//! Verdict discipline (real clock): nothing is decided on elapsed time alone. After the
//! DeleteSubscription has returned OK, a call that has not returned is watched together with the
//! server's activity counter (hook points: actor turns, mailbox sends, replies). Only if the
//! server has done *no work at all* for `IDLE_S` seconds of wall time and the call is still
//! outstanding is it reported: nothing is running that could still answer it. A round that is
//! still active after `ROUND_LIMIT_S` is inconclusive.

use super::common::*;
use super::Plan;
use crate::client::*;
use crate::report::*;
use crate::rng::Rng;
use crate::world::*;
use std::time::{Duration, Instant};

const IDLE_S: u64 = 5;
const ROUND_LIMIT_S: u64 = 60;

pub fn plan(p: &EpParams) -> Plan {
    let n = if tier_thorough(p) { 96 } else { 24 };
    Plan {
        episodes: n,
        exhaustive: false,
        rule: "multi-thread runtime (6 workers, real clock): per episode 150 rounds of {fresh subscription, 3 parked unary Pulls, every third round an open StreamingPull, DeleteSubscription issued together with 2-6 other requests on the same subscription (Acknowledge / ModifyAckDeadline / GetSubscription / Pull(return_immediately) / a second DeleteSubscription / Publish to its topic)}. Oracle: after DeleteSubscription returned OK every parked Pull returns NOT_FOUND, the stream ends, and every other request returns with some status; a call is reported as never answered only when it is still outstanding after the server's activity counter (hook points) has not moved for 5 s of wall time. Non-trivial: >=100 rounds completed with parked Pulls released by the deletion. Distinct: (episode, kinds of racing requests).".into(),
    }
}

pub fn run(p: &EpParams) -> EpReport {
    let rt = episode_runtime(p.ep_seed, false, true, 6);
    let p2 = p.clone();
    let rep = rt.block_on(async move { episode(&p2).await });
    // calls that never return keep their tasks alive: do not wait for them
    rt.shutdown_background();
    rep
}

/// Waits until `h` has finished. Returns false if the server has been idle (activity counter
/// unchanged) for `IDLE_S` seconds while the call is still outstanding; None if the round limit
/// was reached while the server kept working.
async fn finished_or_idle<T>(h: &tokio::task::JoinHandle<T>, t_round: Instant) -> Option<bool> {
    let mut last = (deltio::verif::activity(), Instant::now());
    loop {
        if h.is_finished() {
            return Some(true);
        }
        tokio::time::sleep(Duration::from_millis(2)).await;
        let a = deltio::verif::activity();
        if a != last.0 {
            last = (a, Instant::now());
        } else if last.1.elapsed().as_secs() >= IDLE_S {
            return Some(h.is_finished());
        }
        if t_round.elapsed().as_secs() >= ROUND_LIMIT_S {
            return None;
        }
    }
}

async fn episode(p: &EpParams) -> EpReport {
    let mut rep = EpReport::default();
    let mut rng = Rng::new(p.ep_seed);
    let w = World::new(transport_of(p), false, None).await;
    let c0 = Cx::new(&w, 0);
    let t = topic_name(1, 1);
    c0.create_topic(&t).await.ok();
    let rounds = 150;
    let mut released = 0u64;
    let mut kinds_seen: std::collections::BTreeSet<&'static str> = Default::default();
    'rounds: for round in 0..rounds {
        let s = sub_name(1, 10 + round);
        if c0.create_sub(&s, &t, 10).await.is_err() {
            rep.inconclusive("c12m: CreateSubscription failed");
            break;
        }
        // something to lease, so that Acknowledge / ModifyAckDeadline name a real delivery
        let _ = c0.publish(&t, &[Msg::tagged(&format!("r{}", round))]).await;
        let lease: Vec<String> = c0.pull(&s, 1, true).await.map(|d| d.into_iter().map(|d| d.ack_id).collect()).unwrap_or_default();
        let mut parked = Vec::new();
        for i in 0..3u32 {
            let (c, sp) = (Cx::new(&w, 1 + i), s.clone());
            parked.push(tokio::spawn(async move { c.pull(&sp, 5, false).await.map(|d| d.len()).map_err(|e| e.code() as i32) }));
        }
        let mut stream = None;
        if round % 3 == 0 {
            stream = Cx::new(&w, 5).open_stream(&s, 0).await.ok();
        }
        // let the pulls get parked (a few scheduler turns are enough on worker threads; a pull that
        // arrives later simply meets the deletion on its way in, which is part of what is tested)
        for _ in 0..rng.below(40) {
            tokio::task::yield_now().await;
        }
        let t_round = Instant::now();
        // the deletion and, at the same moment, other requests on the same subscription
        let mut racing: Vec<(&'static str, tokio::task::JoinHandle<i32>)> = Vec::new();
        let n_race = rng.range(2, 6);
        for i in 0..n_race {
            let (c, sp, tp, ids) = (Cx::new(&w, 10 + i as u32), s.clone(), t.clone(), lease.clone());
            let kind = *rng.pick(&["Ack", "Modify", "GetSub", "PullRI", "Delete2", "Publish"]);
            let spin = rng.below(30);
            kinds_seen.insert(kind);
            racing.push((
                kind,
                tokio::spawn(async move {
                    for _ in 0..spin {
                        tokio::task::yield_now().await;
                    }
                    let r = match kind {
                        "Ack" => c.ack(&sp, &ids).await,
                        "Modify" => c.modify(&sp, &ids, 30).await,
                        "GetSub" => c.get_sub(&sp).await.map(|_| ()),
                        "PullRI" => c.pull(&sp, 1, true).await.map(|_| ()),
                        "Delete2" => c.delete_sub(&sp).await,
                        _ => c.publish(&tp, &[Msg::tagged("x")]).await.map(|_| ()),
                    };
                    match r {
                        Ok(()) => 0,
                        Err(e) => e.code() as i32,
                    }
                }),
            ));
        }
        let (cd, sd) = (Cx::new(&w, 6), s.clone());
        let del = tokio::spawn(async move { cd.delete_sub(&sd).await.map_err(|e| e.code() as i32) });
        match finished_or_idle(&del, t_round).await {
            Some(true) => {}
            Some(false) => {
                rep.viol("C12", "C12:Q-del:delete-never-returned:mt", format!("round {}: DeleteSubscription is still outstanding although the server has done no work for {} s", round, IDLE_S));
                rep.viol("C07", "C07:Q-term:mt-idle-pending{DeleteSub}", format!("round {}: DeleteSubscription is still outstanding although the server has done no work for {} s", round, IDLE_S));
                break 'rounds;
            }
            None => {
                rep.inconclusive("c12m: round still active after 60 s of wall time");
                break 'rounds;
            }
        }
        let del_ok = matches!(del.await, Ok(Ok(())));
        // every parked Pull comes back (NOT_FOUND once the deletion has been processed)
        for (i, h) in parked.into_iter().enumerate() {
            match finished_or_idle(&h, t_round).await {
                Some(true) => {
                    if let Ok(r) = h.await {
                        if del_ok && !matches!(r, Err(NOT_FOUND) | Err(FAILED_PRECONDITION) | Ok(1..)) {
                            // (Ok with messages: served before the deletion took effect, e.g. by a racing
                            // Publish. Ok without messages is what a Pull answers after its own wait limit: it
                            // cannot be back this early with that)
                            rep.viol("C12", "C12:Q-del:pull-wrong-status:mt", format!("round {}: parked Pull {} came back with {:?} after its subscription was deleted", round, i, r));
                        } else {
                            released += 1;
                        }
                    }
                }
                Some(false) => {
                    rep.viol("C12", "C12:Q-del:pull-not-terminated:mt", format!("round {}: DeleteSubscription returned {} and the server has done no work for {} s, but parked Pull {} is still blocked", round, if del_ok { "OK" } else { "an error" }, IDLE_S, i));
                    rep.viol("C07", "C07:Q-term:mt-idle-pending{Pull}", format!("round {}: a Pull is still outstanding although the server has done no work for {} s (its subscription was deleted meanwhile)", round, IDLE_S));
                    h.abort();
                    break 'rounds;
                }
                None => {
                    rep.inconclusive("c12m: round still active after 60 s of wall time");
                    break 'rounds;
                }
            }
        }
        for (kind, h) in racing {
            match finished_or_idle(&h, t_round).await {
                Some(true) => {}
                Some(false) => {
                    rep.viol("C07", format!("C07:Q-term:mt-idle-pending{{{}}}", kind), format!("round {}: a {} issued together with the DeleteSubscription of its subscription is still outstanding although the server has done no work for {} s", round, kind, IDLE_S));
                    rep.viol("C12", format!("C12:Q-del:request-never-answered:mt:{}", kind), format!("round {}: a {} issued together with the DeleteSubscription of its subscription is still outstanding although the server has done no work for {} s", round, kind, IDLE_S));
                    h.abort();
                    break 'rounds;
                }
                None => {
                    rep.inconclusive("c12m: round still active after 60 s of wall time");
                    break 'rounds;
                }
            }
        }
        if let Some(mut h) = stream.take() {
            // the stream ends by itself (NOT_FOUND); give it the same treatment
            let mut last = (deltio::verif::activity(), Instant::now());
            loop {
                if h.ended().is_some() {
                    rep.inc("streams_ended_by_the_deletion");
                    break;
                }
                tokio::time::sleep(Duration::from_millis(2)).await;
                let a = deltio::verif::activity();
                if a != last.0 {
                    last = (a, Instant::now());
                } else if last.1.elapsed().as_secs() >= IDLE_S {
                    if h.ended().is_none() {
                        rep.viol("C12", "C12:Q-del:stream-not-terminated:mt", format!("round {}: the StreamingPull is still open although its subscription was deleted and the server has done no work for {} s", round, IDLE_S));
                    }
                    break;
                }
                if t_round.elapsed().as_secs() >= ROUND_LIMIT_S {
                    rep.inconclusive("c12m: round still active after 60 s of wall time");
                    break 'rounds;
                }
            }
            h.abort();
        }
        rep.inc("rounds_completed");
    }
    rep.add("parked_pulls_released_by_deletion", released);
    rep.nontrivial = released >= 100;
    rep.key = format!("idx={} racing={:?}", p.get("index").unwrap_or("?"), kinds_seen);
    rep.history = w.history().abstract_lines(if rep.violations.is_empty() { 20 } else { 120 });
    w.shutdown();
    rep
}
