//! C12 — deleting a subscription releases the consumers waiting on it.
//!
//! Episode: a subscription with 1-4 open StreamingPulls (request side open or
//! closed), 0-3 blocked Pulls and 0-10 (sometimes 17-70) in-flight ack/modify/pull calls (and creates of the same name) is
//! deleted, optionally racing a publish. One virtual second after the delete
//! returned OK (and again after one virtual hour) the monitor looks at every
//! consumer (Q-del, DESIGN 4/C12).

use super::common::*;
use super::Plan;
use crate::client::*;
use crate::report::*;
use crate::rng::Rng;
use crate::world::*;
use std::time::Duration;

pub fn plan(p: &EpParams) -> Plan {
    let n = if p.engine == "miri" {
        16
    } else if tier_thorough(p) {
        if p.transport == "h2" { 8_000 } else { 40_000 }
    } else {
        2_400
    };
    Plan {
        episodes: n,
        exhaustive: false,
        rule: "seeded episodes: 1-4 streams (request side open/closed), 0-3 blocked pulls, 0-10 (a third of the episodes: 17-70, more than the mailbox holds) in-flight calls, in a quarter of the episodes the topic is deleted first (detached subscription), then DeleteSubscription (optionally racing a publish; in a fifth of the episodes abandoned by its client after 0-9 scheduler turns, the deletion being confirmed by GetSubscription); tokio select! RNG and hook yields seeded per episode. Non-trivial: the delete returned OK while >=1 stream was open or >=1 pull was blocked. Distinct: (streams open/closed counts, blocked pulls, in-flight kinds, racing publish, observed end codes).".into(),
    }
}

pub fn run(p: &EpParams) -> EpReport {
    let rt = episode_runtime(p.ep_seed, true, false, 1);
    let p2 = p.clone();
    rt.block_on(async move { episode(&p2).await })
}

async fn episode(p: &EpParams) -> EpReport {
    let mut rep = EpReport::default();
    let mut rng = Rng::new(p.ep_seed);
    let w = World::new(transport_of(p), true, Some(rng.below(100))).await;
    let c0 = Cx::new(&w, 0);
    let t = topic_name(1, 1);
    let s = sub_name(1, 1);
    c0.create_topic(&t).await.ok();
    c0.create_sub(&s, &t, 10).await.ok();

    // Some messages outstanding, some not.
    let n_msgs = rng.below(4);
    if n_msgs > 0 {
        let msgs: Vec<Msg> = (0..n_msgs).map(|i| Msg::tagged(&format!("m{}", i))).collect();
        c0.publish(&t, &msgs).await.ok();
    }
    let mut lease_ids: Vec<String> = vec![];
    if n_msgs > 0 {
        if let Ok(ds) = c0.pull(&s, 100, true).await {
            lease_ids = ds.iter().map(|d| d.ack_id.clone()).collect();
        }
    }

    let lo = if rng.chance(1, 6) { 0 } else { 1 };
    let n_streams = rng.range(lo, 4);
    let n_blocked = rng.below(4);
    if n_streams == 0 && n_blocked == 0 {
        // nothing to release; still a valid (trivial) episode
    }
    let mut streams = Vec::new();
    let mut open_side = Vec::new();
    let stall_first = rng.chance(1, 3);
    let mut stalled = false;
    for i in 0..n_streams {
        let cx = Cx::new(&w, 10 + i as u32);
        match cx.open_stream(&s, if rng.chance(1, 2) { 0 } else { 2 }).await {
            Ok(mut h) => {
                let keep_open = rng.chance(2, 3);
                if !keep_open {
                    h.close_request_side();
                }
                open_side.push(keep_open);
                streams.push(h);
                // one episode in three: the first stream's client takes one more batch and then stops
                // reading (the handler is left right behind the hand-over of that batch, for good)
                if i == 0 && stall_first {
                    // (the reader is let run first, so that it is waiting inside the stream when it is told
                    // to stop after the next batch)
                    w.settle().await;
                    streams[0].pause_reading();
                    // (a batch of 100 KiB: more than the transport hands over in one go, so that the
                    // handler is not polled again behind it)
                    let mut big = Msg::tagged("stall");
                    big.data = b"T:stall|".to_vec();
                    big.data.extend((0..100_000usize).map(|k| (k * 13 % 251) as u8));
                    c0.publish(&t, &[big]).await.ok();
                    w.settle().await;
                    stalled = !streams[0].deliveries().is_empty();
                    if stalled {
                        rep.inc("a_stream_that_stopped_reading_at_the_deletion");
                    } else {
                        streams[0].resume_reading();
                    }
                }
            }
            Err(_) => {}
        }
    }
    let mut blocked = Vec::new();
    for i in 0..n_blocked {
        let cx = Cx::new(&w, 20 + i as u32);
        let s2 = s.clone();
        blocked.push(tokio::spawn(async move { cx.pull_op(&s2, 1 + (i as i32), false).await }));
    }
    // with a stalled stream around: one more message once everybody is parked (whoever is woken by it
    // has to get past the stalled stream to pull it)
    if stalled {
        w.settle().await;
        c0.publish(&t, &[Msg::tagged("stall2")]).await.ok();
    }
    // In some episodes the topic is deleted first: the subscription lives on detached
    // (`_deleted_topic_`), and deleting it must release its consumers all the same.
    let topic_deleted_first = rng.chance(1, 4);
    if topic_deleted_first {
        w.settle().await;
        c0.delete_topic(&t).await.ok();
        rep.inc("topic_deleted_before_subscription");
    }
    w.settle().await;
    let blocked_before: Vec<bool> = blocked.iter().map(|b| !b.is_finished()).collect();

    // In-flight calls racing the delete.
    // a third of the episodes: a burst larger than the 16-slot mailbox around the delete
    let n_inflight = if rng.chance(1, 3) { rng.range(17, 70) } else { rng.below(11) };
    if n_inflight > 16 {
        rep.inc("delete_inside_burst_over_mailbox");
    }
    let mut inflight = Vec::new();
    let mut kinds = Vec::new();
    let race_publish = rng.chance(1, 3);
    let delete_pos = rng.below(n_inflight + 1);
    let mut delete_task = None;
    for i in 0..=n_inflight {
        if i == delete_pos {
            let cx = Cx::new(&w, 1);
            let s2 = s.clone();
            // a fifth of the episodes: the client of the DeleteSubscription goes away after a few
            // scheduler turns. The deletion then happened or it did not (decided by GetSubscription
            // afterwards); if it happened, the consumers must be released all the same.
            let abandon_after = if rng.chance(1, 5) { Some(rng.below(10)) } else { None };
            if abandon_after.is_some() {
                rep.inc("delete_abandoned_by_its_client");
            }
            delete_task = Some(tokio::spawn(async move {
                match abandon_after {
                    None => {
                        let r = cx.delete_sub(&s2).await;
                        (r.is_ok(), cx.w.vt())
                    }
                    Some(k) => {
                        let (c3, s3) = (cx.clone(), s2.clone());
                        let call = tokio::spawn(async move {
                            let _ = c3.delete_sub(&s3).await;
                        });
                        for _ in 0..k {
                            tokio::task::yield_now().await;
                        }
                        call.abort();
                        let _ = call.await;
                        // let whatever the server still does for that request finish
                        for _ in 0..3 {
                            tokio::time::sleep(Duration::from_millis(1)).await;
                            cx.w.barrier().await;
                        }
                        let gone = matches!(cx.get_sub(&s2).await, Err(e) if e.code() as i32 == NOT_FOUND);
                        (gone, cx.w.vt())
                    }
                }
            }));
            // a third of the episodes: other clients create the same name again, a few scheduler
            // turns after the delete was issued (inside the deletion window, if the schedule has it so)
            if rng.chance(1, 3) {
                for j in 0..rng.range(1, 3) {
                    let (cx, s3, t3) = (Cx::new(&w, 70 + j as u32), s.clone(), t.clone());
                    let turns = rng.below(12);
                    kinds.push("CreateSame");
                    inflight.push(("CreateSame", tokio::spawn(async move {
                        for _ in 0..turns {
                            tokio::task::yield_now().await;
                        }
                        cx.create_sub(&s3, &t3, 10).await.map(|_| ()).map_err(|e| e.code() as i32)
                    })));
                }
                rep.inc("same_name_created_around_the_delete");
            }
            // a quarter of the episodes: a second DeleteSubscription crosses the first, with a burst of
            // publishes (more than the subscription's mailbox holds) queued on the topic
            if rng.chance(1, 4) && !topic_deleted_first {
                let (cx, s3) = (Cx::new(&w, 80), s.clone());
                kinds.push("DeleteAgain");
                inflight.push(("DeleteAgain", tokio::spawn(async move { cx.delete_sub(&s3).await.map_err(|e| e.code() as i32) })));
                for j in 0..rng.range(17, 64) {
                    let (cx, t3) = (Cx::new(&w, 200 + j as u32), t.clone());
                    tokio::spawn(async move {
                        let _ = cx.publish(&t3, &[Msg::tagged(&format!("burst{}", j))]).await;
                    });
                }
                rep.inc("crossing_deletes_with_publish_burst");
            }
            // one episode in five: the topic is deleted in the same instant (the two deletions cross)
            if rng.chance(1, 5) && !topic_deleted_first {
                let (cx, t3) = (Cx::new(&w, 81), t.clone());
                let turns = rng.below(6);
                kinds.push("DeleteTopic");
                inflight.push(("DeleteTopic", tokio::spawn(async move {
                    for _ in 0..turns {
                        tokio::task::yield_now().await;
                    }
                    cx.delete_topic(&t3).await.map_err(|e| e.code() as i32)
                })));
                rep.inc("topic_deleted_in_the_same_instant");
            }
            if race_publish {
                let cx = Cx::new(&w, 2);
                let t2 = t.clone();
                inflight.push(("Publish", tokio::spawn(async move {
                    cx.publish(&t2, &[Msg::tagged("race")]).await.map(|_| ()).map_err(|e| e.code() as i32)
                })));
            }
            continue;
        }
        let cx = Cx::new(&w, 30 + i as u32);
        let s2 = s.clone();
        let ids = lease_ids.clone();
        // (one call in eight creates the same name again: inside the deletion window it is refused or
        // has to wait for the name; either way the consumers of the old subscription are released)
        let k = if rng.chance(1, 8) { 4 } else { rng.below(4) };
        let kind = ["Ack", "Modify", "PullRI", "GetSub", "CreateSame"][k as usize];
        kinds.push(kind);
        let secs = *rng.pick(&[0, 30, 600]);
        let t3 = t.clone();
        inflight.push((kind, tokio::spawn(async move {
            match k {
                0 => cx.ack(&s2, &ids).await.map_err(|e| e.code() as i32),
                1 => cx.modify(&s2, &ids, secs).await.map_err(|e| e.code() as i32),
                2 => cx.pull(&s2, 5, true).await.map(|_| ()).map_err(|e| e.code() as i32),
                4 => cx.create_sub(&s2, &t3, 10).await.map(|_| ()).map_err(|e| e.code() as i32),
                _ => cx.get_sub(&s2).await.map(|_| ()).map_err(|e| e.code() as i32),
            }
        })));
    }

    // Wait for the delete to return (bounded by one virtual hour: C07 decides hangs of the delete itself).
    let dt = delete_task.take().unwrap();
    let del = tokio::time::timeout(Duration::from_secs(3600), dt).await;
    let (deleted_ok, _t_del) = match del {
        Ok(Ok((ok, t))) => (ok, t),
        _ => {
            // neither the deletion nor, therefore, the release of the consumers ever happens
            rep.viol("C12", "C12:Q-del:delete-never-returned", format!("DeleteSubscription (racing publish: {}) was still pending after one virtual hour; {} stream(s) and {} blocked pull(s) keep waiting", race_publish, streams.len(), blocked.len()));
            rep.nontrivial = true;
            rep.history = w.history().abstract_lines(300);
            w.shutdown();
            return rep;
        }
    };
    if !deleted_ok {
        if rep.counters.get("delete_abandoned_by_its_client").copied().unwrap_or(0) > 0 {
            // the abandoned request never took effect: nothing was deleted, nothing to release
            rep.inc("abandoned_delete_never_took_effect");
        } else {
            rep.inconclusive("delete-not-ok");
        }
    }

    // One virtual second later, at a quiescent point.
    w.advance(Duration::from_secs(1)).await;
    w.settle().await;

    let had_consumer = streams.iter().any(|_| true) || blocked_before.iter().any(|b| *b);
    rep.nontrivial = deleted_ok && had_consumer;
    let mut end_codes = Vec::new();
    if deleted_ok {
        for (i, h) in streams.iter().enumerate() {
            let side = if open_side[i] { "req-open" } else { "req-closed" };
            if stalled && i == 0 {
                continue; // nobody reads it: judged below, once its client reads again
            }
            match h.ended() {
                None => {
                    rep.viol("C12", format!("C12:Q-del:stream-not-terminated:{}", side), format!("stream op {} still open 1 s after DeleteSubscription returned OK", h.op_id));
                    end_codes.push(format!("{}=pending", side));
                    rep.inc("stream_pending_after_1s");
                }
                Some(code) if code != NOT_FOUND => {
                    rep.viol("C12", format!("C12:Q-del:stream-wrong-status:{}:code={}", side, code), format!("stream op {} ended with code {} instead of NOT_FOUND", h.op_id, code));
                    end_codes.push(format!("{}={}", side, code));
                    rep.inc("stream_wrong_status");
                }
                Some(_) => {
                    end_codes.push(format!("{}=NOT_FOUND", side));
                    rep.inc("stream_ended_not_found");
                }
            }
        }
        for (i, b) in blocked.iter().enumerate() {
            if !blocked_before[i] {
                rep.inc("pull_not_blocked_at_delete");
                continue;
            }
            if !b.is_finished() {
                rep.viol("C12", "C12:Q-del:blocked-pull-pending", "a Pull blocked on the subscription is still waiting 1 s after DeleteSubscription returned OK");
                rep.inc("blocked_pull_pending_after_1s");
                end_codes.push("pull=pending".into());
            }
        }
    }
    // the client of the stalled stream reads again: that stream ends like the others
    if stalled && deleted_ok {
        streams[0].resume_reading();
        w.advance(Duration::from_secs(1)).await;
        w.settle().await;
        match streams[0].ended() {
            Some(code) if code == NOT_FOUND => rep.inc("stream_ended_not_found"),
            Some(code) => rep.viol("C12", format!("C12:Q-del:stream-wrong-status:stalled:code={}", code), format!("a stream whose client had stopped reading ended with code {} instead of NOT_FOUND when it was read again", code)),
            None => rep.viol("C12", "C12:Q-del:stream-not-terminated:stalled", "a stream whose client had stopped reading is still open 1 s after its client read again (its subscription was deleted meanwhile)"),
        }
    }
    // In-flight calls must not hang: decided after one virtual hour (shares Q-term with C07).
    w.advance(Duration::from_secs(3600)).await;
    w.settle().await;
    for (kind, h) in inflight.iter() {
        if !h.is_finished() {
            rep.viol("C12", format!("C12:Q-del:inflight-pending:{}", kind), format!("{} racing the delete never returned", kind));
        }
    }
    for (i, b) in blocked.into_iter().enumerate() {
        if !blocked_before[i] {
            b.abort();
            continue;
        }
        if b.is_finished() {
            if let Ok((_, r)) = b.await {
                match r {
                    Ok(ds) if ds.is_empty() => {
                        if deleted_ok {
                            rep.viol("C12", "C12:Q-del:blocked-pull-ok-empty", "a Pull blocked across the deletion returned OK with no messages instead of an error status");
                        }
                        rep.inc("blocked_pull_ok_empty");
                        end_codes.push("pull=OK0".into());
                    }
                    Ok(_) => {
                        rep.inc("blocked_pull_served");
                        end_codes.push("pull=served".into());
                    }
                    Err(st) => {
                        rep.inc(&format!("blocked_pull_status_{}", st.code() as i32));
                        end_codes.push(format!("pull=E{}", st.code() as i32));
                    }
                }
            }
        } else {
            if deleted_ok {
                rep.viol("C12", "C12:Q-del:blocked-pull-never", "a Pull blocked on the deleted subscription is still pending after one virtual hour");
            }
            b.abort();
        }
    }
    for h in streams.iter() {
        if h.ended().is_none() {
            rep.inc("stream_pending_after_1h");
        }
    }
    end_codes.sort();
    end_codes.dedup();
    kinds.sort();
    rep.key = format!(
        "detached={} open={} closed={} blocked={} inflight={:?} race={} msgs={} ends={:?}",
        topic_deleted_first,
        open_side.iter().filter(|b| **b).count(),
        open_side.iter().filter(|b| !**b).count(),
        blocked_before.iter().filter(|b| **b).count(),
        kinds,
        race_publish,
        n_msgs,
        end_codes
    );
    rep.history = w.history().abstract_lines(300);
    drop(streams);
    w.shutdown();
    rep
}
