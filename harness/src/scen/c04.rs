//! C04 — unacked deliveries are redelivered at the ack deadline, never earlier.
//!
//! Phase sweep: hand-out instants at every millisecond phase 0..99 of the
//! server's 100 ms rounding grid (aligned through the epoch hook) x
//! ack_deadline_seconds values x three consumer kinds, with probes 1 ms before
//! the deadline and just after deadline + slack, and a parked consumer whose
//! receipt instant measures the real expiry instant. Plus random SEQ histories
//! in which several leases with different deadlines coexist.

use super::c02::{apply, epilogue, Ctx};
use super::common::*;
use super::Plan;
use crate::model::*;
use crate::rec::*;
use crate::report::*;
use crate::rng::Rng;
use crate::seq::Seq;
use crate::world::*;
use std::time::Duration;

const DEADLINES_QUICK: [i32; 7] = [0, 9, 11, 60, 601, 2_592_000, i32::MAX];
const DEADLINES_ALL: [i32; 14] = [-5, 0, 1, 9, 10, 11, 17, 60, 600, 601, 3600, 1_000_000, 2_592_000, i32::MAX];
const KINDS: [&str; 3] = ["probe", "blocked", "stream"];

fn deadlines(p: &EpParams) -> Vec<i32> {
    if p.engine == "miri" {
        vec![9]
    } else if tier_thorough(p) {
        DEADLINES_ALL.to_vec()
    } else {
        DEADLINES_QUICK.to_vec()
    }
}

fn phases(p: &EpParams) -> u64 {
    if p.engine == "miri" { 4 } else { 100 }
}

fn only_mass(p: &EpParams) -> bool {
    p.get_u64("only_mass") == Some(1)
}

fn n_random(p: &EpParams) -> u64 {
    if only_mass(p) {
        0
    } else if p.engine == "miri" {
        2
    } else if tier_thorough(p) {
        20_000
    } else {
        2_000
    }
}

fn sweep(p: &EpParams) -> u64 {
    if only_mass(p) {
        return 0;
    }
    phases(p) * deadlines(p).len() as u64 * KINDS.len() as u64
}

/// Whole pages of leases that run out in one instant, with requests arriving in that instant.
fn n_mass(p: &EpParams) -> u64 {
    if p.engine == "miri" { 0 } else if tier_thorough(p) { 64 } else if only_mass(p) { 32 } else { 16 }
}

pub fn plan(p: &EpParams) -> Plan {
    Plan {
        episodes: sweep(p) + n_random(p) + n_mass(p),
        exhaustive: true,
        rule: format!(
            "phase sweep: hand-out at every ms phase 0..{} of the 100 ms grid (plus the episode's random sub-ms offset) x ack_deadline_seconds in {:?} x consumer kinds {:?} (exhaustive at ms granularity: {} cases), each probed at D-1ms and D+slack+1ms and followed by ack(old id) / second expiry / ack(new id); plus {} random SEQ histories with coexisting leases of different deadlines; plus pages of 1000-2000 leases that run out in one instant while look-ups arrive at the subscription every millisecond. Non-trivial: a lease was left to expire and was probed on both sides of its deadline. Distinct: (ms phase, deadline value, consumer kind) / abstract operation sequence.",
            phases(p) - 1, deadlines(p), KINDS, sweep(p), n_random(p)
        ),
    }
}

pub fn run(p: &EpParams) -> EpReport {
    let rt = episode_runtime(p.ep_seed, true, false, 1);
    let p2 = p.clone();
    rt.block_on(async move { episode(&p2).await })
}

async fn episode(p: &EpParams) -> EpReport {
    let idx = p.get_u64("index").unwrap_or(0);
    if idx < sweep(p) {
        sweep_episode(p, idx).await
    } else if idx >= sweep(p) + n_random(p) {
        mass_episode(p).await
    } else {
        random_episode(p).await
    }
}

async fn sweep_episode(p: &EpParams, idx: u64) -> EpReport {
    let mut rep = EpReport::default();
    let ds = deadlines(p);
    let kind = KINDS[(idx % 3) as usize];
    let d = ds[((idx / 3) % ds.len() as u64) as usize];
    let phase = (idx / 3 / ds.len() as u64) % phases(p) * (100 / phases(p));
    let mut rng = Rng::new(p.ep_seed);
    let w = World::new(transport_of(p), true, Some(phase)).await;
    let _ = rng.below(1000);
    let mut seq = Seq::new(&w);
    let (t, s) = (topic_name(1, 1), sub_name(1, 1));
    seq.create_topic(&t).await;
    seq.create_sub(&s, &t, d).await;
    let a = effective_deadline(d) * SEC;
    // The setup itself takes a few virtual ms (each settle is 1 ms): re-align so that the
    // hand-out happens at the chosen phase.
    let grid = 100 * MS;
    let target_phase = phase * MS;
    // every other phase: an earlier delivery was extended far beyond the deadline of the delivery
    // under test and then acknowledged - whatever timer the subscription armed for it must not
    // delay the expiry of the (unmodified, unacknowledged) delivery that follows
    if (idx / 3 / ds.len() as u64) % 2 == 1 {
        seq.publish(&t, 1).await;
        let got = seq.pull(&s, 1, true).await;
        if let Some(d0) = got.first() {
            let id = d0.ack_id.clone();
            seq.modify(&s, &[id.clone()], ((d as i64 * 6).clamp(60, 600)) as i32).await;
            seq.ack(&s, &[id]).await;
            rep.inc("earlier_delivery_extended_first");
        }
    }
    if kind == "stream" {
        seq.open_stream(&s, 0).await;
    }
    let cur = w.grid_phase();
    // whole milliseconds only, to stay on the timer wheel's ticks
    let delta_ms = ((target_phase + grid - (cur / MS) * MS) % grid) / MS;
    if delta_ms > 0 {
        tokio::time::sleep(Duration::from_millis(delta_ms)).await;
    }
    seq.settle_each_step = false; // keep the hand-out at the aligned instant
    let handout_phase = w.grid_phase();
    seq.publish(&t, 1).await;
    let mut first_ack = String::new();
    let h;
    if kind == "stream" {
        w.barrier().await;
        seq.drain_streams();
        h = seq.m.subs[&s].leases.values().next().map(|l| l.handed);
        first_ack = seq.m.subs[&s].leases.keys().next().cloned().unwrap_or_default();
    } else {
        let got = seq.pull(&s, 1, true).await;
        h = got.first().map(|_| seq.m.subs[&s].leases.values().next().unwrap().handed);
        first_ack = got.first().map(|d| d.ack_id.clone()).unwrap_or(first_ack);
    }
    seq.settle_each_step = true;
    let Some(h) = h else {
        rep.viol("C01", "C01:available-message-not-returned", "the published message was not handed out");
        seq.flush(&mut rep);
        return rep;
    };
    rep.obs("handout_phase_us", (handout_phase / 1000) as i64);
    let dl = h + a;

    // Month- and decade-long deadlines: two early looks (700 s and one hour after the hand-out, i.e.
    // past the longest deadline a modification can set) before the long wait. A delivery that has
    // come back by then is the finding; the episode ends there instead of sleeping for years
    // beside a lease that expires every few minutes.
    if a > 7200 * SEC && kind != "blocked" {
        for look in [700 * SEC, 3600 * SEC] {
            seq.advance_to(h + look).await;
            let _ = seq.pull(&s, 10, true).await; // must be empty (model flags C04:early)
            rep.inc("early_looks_under_long_deadlines");
            if !seq.m.found.is_empty() {
                seq.flush(&mut rep);
                rep.key = format!("phase={} deadline={} kind={} ended-at-early-look", phase, d, kind);
                rep.history = seq.history(60);
                w.shutdown();
                return rep;
            }
        }
    }
    // --- the redelivery --------------------------------------------------------------------------
    let mut second_ack = String::new();
    match kind {
        "probe" => {
            seq.advance_to(dl - MS).await;
            let got = seq.pull(&s, 10, true).await; // must not contain the message (model flags C04:early)
            if got.is_empty() {
                rep.inc("probe_before_deadline_empty");
            }
            seq.advance_to(dl + SLACK_SPEC + MS).await;
            let got = seq.pull(&s, 10, true).await; // must contain it (model flags C04:late)
            if let Some(d) = got.first() {
                second_ack = d.ack_id.clone();
                rep.inc("probe_after_slack_returned");
            }
        }
        "blocked" => {
            // a parked blocking pull measures the real expiry instant; re-issued every 5 minutes
            let mut guard = 0;
            loop {
                let got = seq.pull(&s, 10, false).await;
                guard += 1;
                if let Some(d) = got.first() {
                    second_ack = d.ack_id.clone();
                    let t = seq.now();
                    rep.obs("lateness_us", (t as i64 - dl as i64) / 1000);
                    rep.inc("expiry_measured_by_blocked_pull");
                    break;
                }
                if seq.now() > dl + 400 * SEC || guard > 20 {
                    break;
                }
            }
        }
        _ => {
            // the open stream receives the redelivery by itself
            seq.advance_to(dl - MS).await;
            let n_before = seq.streams[&s].deliveries().len();
            seq.advance_to(dl + SLACK_SPEC + MS).await;
            let dsx = seq.streams[&s].deliveries();
            if dsx.len() > n_before {
                second_ack = dsx[n_before].ack_id.clone();
                rep.inc("expiry_measured_by_stream");
                // receipt instant from the recorder
                let evs = w.rec.snapshot();
                if let Some(vt) = evs.iter().find_map(|e| match &e.kind {
                    EvKind::Deliver(x) if x.ack_id == second_ack && x.via == Via::Stream => Some(e.vt),
                    _ => None,
                }) {
                    rep.obs("lateness_us", (vt as i64 - dl as i64) / 1000);
                }
            } else {
                rep.viol("C04", "C04:late:stream-never-redelivered", format!("an open stream did not receive the redelivery by deadline + slack (deadline {} s, phase {} ms)", a / SEC, phase));
            }
            seq.check_streams_drained(&mut rep);
        }
    }
    // --- old ack id is inert, new one works ------------------------------------------------------------
    if !second_ack.is_empty() {
        if second_ack == first_ack {
            rep.viol("C04", "C04:redelivery-reused-ack-id", format!("redelivery carries the old ack id {}", first_ack));
        }
        seq.ack(&s, &[first_ack.clone()]).await; // stale: must leave the new lease intact
        let t2 = seq.m.subs[&s].leases.get(&second_ack).map(|l| l.hi);
        if let Some(hi2) = t2 {
            if kind == "stream" {
                let n_before = seq.streams[&s].deliveries().len();
                seq.advance_to(hi2 + MS).await;
                if seq.streams[&s].deliveries().len() == n_before {
                    rep.viol("C04", "C04:old-ack-id-not-inert", "acknowledging the old ack id after redelivery stopped further redelivery (stream)");
                }
                let third = seq.streams[&s].deliveries().last().map(|d| d.ack_id.clone()).unwrap_or_default();
                seq.ack(&s, &[third]).await;
            } else {
                seq.advance_to(hi2 + MS).await;
                let got = seq.pull(&s, 10, true).await;
                match got.first() {
                    None => rep.viol("C04", "C04:old-ack-id-not-inert", "acknowledging the old ack id after redelivery stopped further redelivery"),
                    Some(d) => {
                        rep.inc("second_expiry_observed");
                        let id = d.ack_id.clone();
                        seq.ack(&s, &[id]).await;
                    }
                }
            }
            // acknowledged with its current id: gone for good
            seq.advance(Duration::from_secs(a / SEC + 2)).await;
            let got = seq.pull(&s, 10, true).await;
            if !got.is_empty() && kind != "stream" {
                // flagged by the model as C02
            }
            rep.nontrivial = true;
        }
    }
    seq.flush(&mut rep);
    rep.key = format!("phase={} deadline={} kind={}", phase, d, kind);
    rep.history = seq.history(60);
    w.shutdown();
    rep
}

/// 1000-2000 messages handed out in pages of up to 1000 and never acknowledged; while their leases
/// run out (a page at a time, in one instant each) look-ups keep arriving at the subscription, 3 per
/// millisecond. Every message comes back (the exact model and the hooked counts decide).
async fn mass_episode(p: &EpParams) -> EpReport {
    let mut rep = EpReport::default();
    let mut rng = Rng::new(p.ep_seed);
    let w = World::new(transport_of(p), true, Some(rng.below(100))).await;
    let mut seq = Seq::new(&w);
    seq.check_stats_every_step = false;
    let (t, s) = (topic_name(1, 1), sub_name(1, 1));
    seq.create_topic(&t).await;
    seq.create_sub(&s, &t, 10).await;
    let n = *rng.pick(&[1000usize, 1001, 1500, 2000]);
    let mut left = n;
    while left > 0 {
        let k = left.min(1000);
        seq.publish(&t, k).await;
        left -= k;
    }
    let mut handed = 0;
    for _ in 0..4 {
        let got = seq.pull(&s, 1000, true).await;
        handed += got.len();
        if got.is_empty() {
            break;
        }
    }
    let first_lo = seq.m.subs[&s].leases.values().map(|l| l.lo).min().unwrap_or(0);
    let last_hi = seq.m.subs[&s].leases.values().map(|l| l.hi).max().unwrap_or(0);
    if handed == n && first_lo > seq.now() + 5 * MS {
        seq.advance_to(first_lo - 2 * MS).await;
        let mut look = 0u32;
        while seq.now() < last_hi + 5 * MS {
            for _ in 0..3 {
                look += 1;
                let (c, sp) = (crate::client::Cx::new(&w, 500 + look % 64), s.clone());
                tokio::spawn(async move {
                    let _ = c.get_sub(&sp).await;
                });
            }
            tokio::time::sleep(Duration::from_millis(1)).await;
        }
        rep.add("lookups_while_pages_expire", look as u64);
        seq.advance_to(last_hi + SLACK_SPEC + MS).await;
        seq.check_stats("Advance").await;
        let mut back = 0;
        for _ in 0..6 {
            let got = seq.pull(&s, 1000, true).await; // the model flags what is missing (C04:late / C01)
            back += got.len();
            if got.is_empty() {
                break;
            }
        }
        if back == n {
            rep.inc("whole_pages_redelivered_after_one_instant_expiry");
        } else if back < n {
            // C16: the consumer took these pages and never answered (it is gone as far as the server
            // can tell); whatever else reaches the subscription while they expire, all come back
            rep.viol("C16", "C16:lost-after-abandonment:mass-expiry", format!("{} of {} messages handed to a consumer that never answered came back after their deadline (look-ups were arriving at the subscription while the leases ran out)", back, n));
        }
        seq.check_stats("Pull").await;
        rep.nontrivial = true;
    } else {
        rep.inconclusive("mass expiry: hand-out incomplete");
    }
    seq.flush(&mut rep);
    rep.key = format!("mass n={}", n);
    rep.history = seq.history(40);
    w.shutdown();
    rep
}

async fn random_episode(p: &EpParams) -> EpReport {
    let mut rep = EpReport::default();
    let mut rng = Rng::new(p.ep_seed);
    let w = World::new(transport_of(p), true, Some(rng.below(100))).await;
    let mut seq = Seq::new(&w);
    let mut c = Ctx {
        t: topic_name(1, 1),
        s1: sub_name(1, 1),
        s2: sub_name(1, 2),
        past_ids: vec![],
        last_acked: None,
        effective_acks: 0,
        odd_acks: 0,
        crossings_after_ack: 0,
        modifies: 0,
        nacks: 0,
        dup_nacks: 0,
        stream_acks: 0,
    };
    seq.create_topic(&c.t.clone()).await;
    let d1 = *rng.pick(&[0, 10, 12]);
    let d2 = *rng.pick(&[15, 17, 31]);
    seq.create_sub(&c.s1.clone(), &c.t.clone(), d1).await;
    seq.create_sub(&c.s2.clone(), &c.t.clone(), d2).await;
    // several leases handed out at different instants, then a walk across their deadlines
    let letters = [
        "publish", "publish3", "pull1", "pull1", "pullall", "jitter", "jitter", "adv_before", "adv_past", "adv_before", "adv_past", "pull1", "ack_newest", "nack_oldest", "ack_stale",
    ];
    let n = rng.range(30, 60);
    let mut ls = Vec::new();
    let mut crossings = 0;
    for _ in 0..n {
        let l = *rng.pick(&letters);
        let s = if rng.chance(1, 2) { c.s1.clone() } else { c.s2.clone() };
        if l == "jitter" {
            let ms = rng.range(1, 2500);
            seq.advance(Duration::from_millis(ms)).await;
        } else {
            if l == "adv_past" {
                crossings += 1;
            }
            apply(&mut seq, &mut c, l, &s).await;
        }
        ls.push(format!("{}{}", l, if s == c.s1 { "" } else { "@2" }));
    }
    epilogue(&mut seq, &mut c, 2).await;
    seq.flush(&mut rep);
    rep.nontrivial = crossings > 0;
    rep.key = ls.join(",");
    rep.history = seq.history(120);
    w.shutdown();
    rep
}
