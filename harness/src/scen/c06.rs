//! C06 — waiting consumers are woken when a message becomes available.
//!
//! Restated as bounded progress (DESIGN 4/C06): at every quiescent point (no
//! runnable task, clock paused) there is no subscription with backlog > 0 and
//! a consumer the harness knows to be waiting on it. The episode is a seeded
//! sequence of steps - waiters come (blocked Pull, open StreamingPull with
//! batch limits 1-3), go (cancelled while parked or in the same instant as the
//! availability event), messages become available by publish, by nack from
//! another client, by deadline expiry - with a quiescence check after each.

use super::common::*;
use super::Plan;
use crate::client::*;
use crate::rec::*;
use crate::report::*;
use crate::rng::Rng;
use crate::world::*;
use std::collections::BTreeMap;
use std::time::Duration;

pub fn plan(p: &EpParams) -> Plan {
    let n = if let Some(n) = p.get_u64("n") {
        n
    } else if p.engine == "miri" {
        2
    } else if tier_thorough(p) {
        if p.transport == "h2" { 8_000 } else { 60_000 }
    } else {
        4_000
    };
    Plan {
        episodes: n,
        exhaustive: false,
        rule: "stepwise episodes of 15-40 seeded steps on one subscription: start a blocked Pull (max 1-3) or an open StreamingPull (max_outstanding 0-3), cancel a waiter (parked, or in the same instant as a publish), stall a StreamingPull client (it stops reading responses), publish 1 or 2-5 messages, nack leases from another client, advance past the ack deadline; a non-destructive quiescence check (hook stats) after every step, reported only if it persists over two barriers. Non-trivial: >=1 quiescent observation with a waiting consumer and >=1 wake-up in the episode. Distinct: (waiter kinds and limits, availability causes, cancellation points) sequence.".into(),
    }
}

pub fn run(p: &EpParams) -> EpReport {
    let rt = episode_runtime(p.ep_seed, true, false, 1);
    let p2 = p.clone();
    rt.block_on(async move { episode(&p2).await })
}

enum Waiter {
    Pull { max: i32, task: tokio::task::JoinHandle<(u64, Result<Vec<Delivery>, tonic::Status>)>, op_hint: u32, since: Vt },
    Stream { h: StreamHandle, seen: usize },
}

async fn episode(p: &EpParams) -> EpReport {
    let mut rep = EpReport::default();
    let mut rng = Rng::new(p.ep_seed);
    let w = World::new(transport_of(p), true, Some(rng.below(100))).await;
    let c0 = Cx::new(&w, 0);
    let (t, s) = (topic_name(1, 1), sub_name(1, 1));
    c0.create_topic(&t).await.ok();
    // a quarter of the episodes: the subscription carries a push config (no push loop runs here);
    // Pull and StreamingPull on it are served and woken like on any other subscription
    if rng.chance(1, 4) {
        c0.create_sub_full(&s, &t, 10, Some("http://127.0.0.1:9/push"), Default::default()).await.ok();
        rep.inc("episodes_on_a_push_configured_subscription");
    } else {
        c0.create_sub(&s, &t, 10).await.ok();
    }
    let mut waiters: Vec<Waiter> = Vec::new();
    let mut known_leases: Vec<String> = Vec::new();
    let mut next_client = 10u32;
    let mut tagn = 0;
    let mut shape: Vec<String> = Vec::new();
    let mut q_points_with_waiter = 0u64;
    let mut wakeups = 0u64;
    let steps = rng.range(15, 40);
    let mut last_cause = "none";
    for _ in 0..steps {
        let mut cause = "none";
        match rng.below(13) {
            12 => {
                // a StreamingPull client stops reading its responses: its handler stalls at the next
                // response it wants to send, subscribed to the availability signal but not waiting on
                // it - availability events that follow belong to the consumers that really wait
                let idx: Vec<usize> = waiters.iter().enumerate().filter(|(_, wt)| matches!(wt, Waiter::Stream { h, .. } if !h.is_paused())).map(|(i, _)| i).collect();
                if !idx.is_empty() {
                    if let Waiter::Stream { h, .. } = &waiters[*rng.pick(&idx)] {
                        h.pause_reading();
                        shape.push("stall-stream".into());
                        rep.inc("streams_stalled");
                    }
                }
            }
            0 | 1 => {
                let max = rng.range(1, 3) as i32;
                next_client += 1;
                let cx = Cx::new(&w, next_client);
                let s2 = s.clone();
                let task = tokio::spawn(async move { cx.pull_op(&s2, max, false).await });
                waiters.push(Waiter::Pull { max, task, op_hint: next_client, since: w.vt() });
                shape.push(format!("+pull{}", max));
            }
            2 => {
                let lim = rng.below(4) as i64;
                next_client += 1;
                if let Ok(h) = Cx::new(&w, next_client).open_stream(&s, lim).await {
                    waiters.push(Waiter::Stream { h, seen: 0 });
                    shape.push(format!("+stream{}", lim));
                }
            }
            3 => {
                // cancel a waiter while it is parked
                if !waiters.is_empty() {
                    let i = rng.below(waiters.len() as u64) as usize;
                    match waiters.swap_remove(i) {
                        Waiter::Pull { task, .. } => {
                            task.abort();
                            shape.push("-pull".into());
                        }
                        Waiter::Stream { mut h, .. } => {
                            known_leases.extend(h.deliveries().iter().map(|d| d.ack_id.clone()));
                            h.abort();
                            shape.push("-stream".into());
                        }
                    }
                    rep.inc("cancelled_while_parked");
                }
            }
            4 | 5 | 6 => {
                let k = if rng.chance(1, 2) { 1 } else { rng.range(2, 5) };
                let msgs: Vec<Msg> = (0..k)
                    .map(|_| {
                        tagn += 1;
                        Msg::tagged(&format!("w{}", tagn))
                    })
                    .collect();
                let race_cancel = rng.chance(1, 5) && !waiters.is_empty();
                let saturate = race_cancel && rng.chance(1, 2);
                if saturate {
                    // Keep the subscription's mailbox full for a while (looping cheap calls), so that
                    // the woken consumer's pull request has to wait for room; an "assassin" task
                    // cancels one waiter after a few round trips of its own, i.e. at one of the
                    // program's real suspension points (no hook yield is needed for this).
                    for i in 0..rng.range(20, 34) {
                        let cx = Cx::new(&w, 500 + i as u32);
                        let s2 = s.clone();
                        let rounds = rng.range(2, 7);
                        tokio::spawn(async move {
                            for _ in 0..rounds {
                                let _ = cx.get_sub(&s2).await;
                            }
                        });
                    }
                    let victim = rng.below(waiters.len() as u64) as usize;
                    let handle = match &waiters[victim] {
                        Waiter::Pull { task, .. } => Some(task.abort_handle()),
                        Waiter::Stream { h, .. } => h.reader_abort_handle(),
                    };
                    if let Some(handle) = handle {
                        let cx = Cx::new(&w, 499);
                        let s2 = s.clone();
                        let rounds = rng.below(7);
                        tokio::spawn(async move {
                            for _ in 0..rounds {
                                let _ = cx.get_sub(&s2).await;
                            }
                            handle.abort();
                        });
                    }
                    rep.inc("cancel_with_saturated_mailbox");
                }
                if race_cancel {
                    // the cancellation lands in the same instant as the notification
                    let cx = Cx::new(&w, 1);
                    let t2 = t.clone();
                    let pubtask = tokio::spawn(async move { cx.publish(&t2, &msgs).await.map(|_| ()) });
                    for _ in 0..rng.below(4) {
                        tokio::task::yield_now().await;
                    }
                    let i = rng.below(waiters.len() as u64) as usize;
                    match waiters.swap_remove(i) {
                        Waiter::Pull { task, .. } => task.abort(),
                        Waiter::Stream { mut h, .. } => {
                            known_leases.extend(h.deliveries().iter().map(|d| d.ack_id.clone()));
                            h.abort()
                        }
                    }
                    let _ = pubtask.await;
                    rep.inc("cancelled_in_the_instant_of_notify");
                    shape.push(format!("pub{}!cancel", k));
                } else if rng.chance(1, 4) {
                    // several publishers at once: a second message may arrive right behind the pull
                    // of the consumer that the first one woke
                    let n_pub = rng.range(2, 4);
                    let mut hs = Vec::new();
                    for (i, m) in msgs.iter().cycle().take(n_pub as usize).enumerate() {
                        let cx = Cx::new(&w, 40 + i as u32);
                        let t2 = t.clone();
                        tagn += 1;
                        let one = vec![Msg::tagged(&format!("{}p{}", m.tag, tagn))];
                        hs.push(tokio::spawn(async move { cx.publish(&t2, &one).await.map(|_| ()) }));
                    }
                    for h in hs {
                        let _ = h.await;
                    }
                    shape.push(format!("pub1x{}", n_pub));
                    rep.inc("concurrent_publishes");
                } else {
                    let _ = c0.publish(&t, &msgs).await;
                    shape.push(format!("pub{}", k));
                }
                cause = "publish";
            }
            7 | 8 => {
                if !known_leases.is_empty() {
                    let k = rng.range(1, known_leases.len().min(3) as u64) as usize;
                    let ids: Vec<String> = known_leases.drain(..k).collect();
                    // half of the time the nack travels inside a StreamingPull control message that
                    // also extends another lease (per-ID seconds: extension first, nack second)
                    let stream = waiters.iter().find_map(|wt| match wt {
                        Waiter::Stream { h, .. } if h.is_reading() && h.request_side_open() => Some(h),
                        _ => None,
                    });
                    match stream {
                        Some(h) if rng.chance(1, 2) && !known_leases.is_empty() => {
                            let ext = known_leases[0].clone();
                            let mut mod_ids = vec![ext];
                            let mut secs = vec![30];
                            for id in &ids {
                                mod_ids.push(id.clone());
                                secs.push(0);
                            }
                            h.send(&[], &mod_ids, &secs);
                            shape.push(format!("stream-nack{}", k));
                            rep.inc("nacks_in_mixed_control_message");
                        }
                        _ => {
                            let _ = Cx::new(&w, 2).modify(&s, &ids, 0).await;
                            shape.push(format!("nack{}", k));
                        }
                    }
                    cause = "nack";
                }
            }
            9 => {
                // acks (so that not everything circulates for ever)
                if !known_leases.is_empty() {
                    let k = rng.range(1, known_leases.len().min(4) as u64) as usize;
                    let ids: Vec<String> = known_leases.drain(..k).collect();
                    let _ = Cx::new(&w, 3).ack(&s, &ids).await;
                    shape.push("ack".into());
                }
            }
            _ => {
                // deadline expiry reached by advancing the clock
                if rng.chance(1, 2) {
                    w.advance(Duration::from_millis(rng.range(9_000, 11_500))).await;
                    shape.push("expire".into());
                } else {
                    // ... with other requests on their way to the subscription when the clock
                    // jumps: the actor finds its mailbox and its expiry timer ready in the same
                    // instant (acks of one lease of a batch, look-ups, acks of unknown IDs)
                    let n = rng.range(1, 6);
                    for i in 0..n {
                        let cx = Cx::new(&w, 50 + i as u32);
                        let s2 = s.clone();
                        match rng.below(3) {
                            0 => {
                                tokio::spawn(async move {
                                    let _ = cx.get_sub(&s2).await;
                                });
                            }
                            1 if !known_leases.is_empty() => {
                                let id = known_leases.remove(0);
                                tokio::spawn(async move {
                                    let _ = cx.ack(&s2, &[id]).await;
                                });
                            }
                            _ => {
                                tokio::spawn(async move {
                                    let _ = cx.ack(&s2, &["987654".to_string()]).await;
                                });
                            }
                        }
                    }
                    tokio::time::advance(Duration::from_millis(rng.range(9_000, 11_500))).await;
                    w.barrier().await;
                    shape.push(format!("expire+{}reqs", n));
                    rep.inc("expiries_with_requests_in_flight");
                }
                cause = "expiry";
            }
        }
        if cause != "none" {
            last_cause = cause;
        }
        // ---- quiescent point ------------------------------------------------------------------------
        if !w.settle().await {
            rep.inconclusive("barrier-did-not-stabilise");
            continue;
        }
        // harvest: finished pulls leave the waiter set; stream deliveries become known leases
        let mut still: Vec<Waiter> = Vec::new();
        let mut served_now = 0;
        for wt in waiters.drain(..) {
            match wt {
                Waiter::Pull { max, task, op_hint, since } => {
                    if task.is_finished() {
                        if let Ok((_, Ok(ds))) = task.await {
                            if ds.is_empty() && w.vt().saturating_sub(since) < 299 * SEC {
                                rep.viol("C15", "C15:empty-blocking-pull", format!("a blocked Pull returned an empty response after {} ms", (w.vt() - since) / MS));
                            }
                            if ds.len() as i32 > max {
                                rep.viol("C15", "C15:over-limit:Pull", format!("blocked pull with max {} got {}", max, ds.len()));
                            }
                            if !ds.is_empty() {
                                served_now += 1;
                            }
                            known_leases.extend(ds.iter().map(|d| d.ack_id.clone()));
                        }
                    } else {
                        still.push(Waiter::Pull { max, task, op_hint, since });
                    }
                }
                Waiter::Stream { h, seen } => {
                    let all = h.deliveries();
                    if all.len() > seen {
                        served_now += 1;
                        known_leases.extend(all[seen..].iter().map(|d| d.ack_id.clone()));
                    }
                    if h.is_reading() || (h.is_paused() && h.ended().is_none()) {
                        let n = all.len();
                        still.push(Waiter::Stream { h, seen: n });
                    }
                }
            }
        }
        waiters = still;
        if served_now > 0 {
            wakeups += served_now;
            rep.add(&format!("wakeups_by_{}", last_cause), served_now);
            if served_now > 1 {
                rep.inc("hand_on_wakeups");
            }
        }
        let waiting_now = waiters.len();
        if waiting_now == 0 {
            continue;
        }
        q_points_with_waiter += 1;
        let Some(st) = w.stats(&s).await else { continue };
        if st.backlog > 0 {
            // must persist over a second barrier with the same consumers still waiting
            if !w.settle().await {
                rep.inconclusive("barrier-did-not-stabilise");
                continue;
            }
            let st2 = w.stats(&s).await;
            let still_waiting = waiters.iter().filter(|wt| match wt {
                Waiter::Pull { task, .. } => !task.is_finished(),
                Waiter::Stream { h, seen } => h.is_reading() && h.deliveries().len() == *seen,
            }).count();
            if let Some(st2) = st2 {
                if st2.backlog > 0 && still_waiting > 0 {
                    let kinds: Vec<&str> = waiters.iter().map(|wt| match wt {
                        Waiter::Pull { .. } => "pull",
                        Waiter::Stream { .. } => "stream",
                    }).collect();
                    let kind = if kinds.iter().all(|k| *k == "pull") { "pull" } else if kinds.iter().all(|k| *k == "stream") { "stream" } else { "mixed" };
                    if std::env::var("DV_DEBUG").is_ok() {
                        for wt in waiters.iter() {
                            match wt {
                                Waiter::Pull { task, max, .. } => eprintln!("DEBUG waiter pull max={} finished={}", max, task.is_finished()),
                                Waiter::Stream { h, seen } => eprintln!("DEBUG waiter stream op={} paused={} reading={} deliveries={} seen={} ended={:?}", h.op_id, h.is_paused(), h.is_reading(), h.deliveries().len(), seen, h.ended()),
                            }
                        }
                        eprintln!("DEBUG hooks {:?}", deltio::verif::snapshot());
                    }
                    let mut waiting: BTreeMap<String, Vec<u64>> = BTreeMap::new();
                    waiting.insert(s.clone(), vec![still_waiting as u64]);
                    w.quiesce(&[s.clone()], waiting).await;
                    // the same observation seen from C15: a unary Pull without return_immediately
                    // keeps waiting although a message is available
                    let pulls_waiting = waiters.iter().filter(|wt| matches!(wt, Waiter::Pull { task, .. } if !task.is_finished())).count();
                    if pulls_waiting > 0 {
                        rep.viol(
                            "C15",
                            format!("C15:blocked-pull-not-woken:{}", last_cause),
                            format!("at a quiescent point {} message(s) sit in the backlog of {} while {} blocking Pull(s) keep waiting; last availability event: {}", st2.backlog, short(&s), pulls_waiting, last_cause),
                        );
                    }
                    rep.viol(
                        "C06",
                        format!("C06:Q-wake:{}:{}", last_cause, kind),
                        format!("at a quiescent point {} message(s) sit in the backlog of {} while {} consumer(s) ({:?}) are waiting; last availability event: {}", st2.backlog, short(&s), still_waiting, kinds, last_cause),
                    );
                    break;
                }
            }
        }
    }
    for wt in waiters.drain(..) {
        match wt {
            Waiter::Pull { task, .. } => task.abort(),
            Waiter::Stream { mut h, .. } => h.abort(),
        }
    }
    rep.add("quiescent_points_with_waiter", q_points_with_waiter);
    rep.nontrivial = q_points_with_waiter > 0 && wakeups > 0;
    rep.key = shape.join(",");
    rep.history = w.history().abstract_lines(if rep.violations.is_empty() { 60 } else { 500 });
    rep.history.insert(0, format!("steps: {}", shape.join(",")));
    w.shutdown();
    rep
}
