//! C09 — messages are delivered intact with a stable, globally unique identity
//! (pull paths; the push path is checked by the c14 scenario's C09 rules).

use super::common::*;
use super::Plan;
use crate::client::*;
use crate::rec::*;
use crate::report::*;
use crate::rng::Rng;
use crate::world::*;
use std::collections::HashMap;
use std::time::Duration;

pub fn plan(p: &EpParams) -> Plan {
    let n = if p.engine == "miri" { 2 } else if tier_thorough(p) { 20_000 } else { 2_000 };
    Plan {
        episodes: n,
        exhaustive: false,
        rule: "sequential episodes: payload classes {empty, 1 byte, all 256 byte values, 64 KiB, 1 MiB (every 16th episode), random binary} x attribute classes {none, one, 50 keys, empty key / empty value, non-ASCII, 4 KiB values}; every message is delivered >=3 times (expiry and nack) on two subscriptions through Pull and StreamingPull; topics are deleted and re-created under the same name (and other topics published to) with publishes on every incarnation. Byte-exact comparison of data and attributes, message id = the id Publish returned, publish_time constant per message, ids unique across topics and incarnations; every 8th episode instead creates 25-60 topics in one server lifetime (deletions, re-creations under old and new names, 1-15 messages per publish, long-lived early topics) and checks id uniqueness and delivered id = published id over everything issued. Non-trivial: >=1 message delivered >=3 times and >=1 topic re-created. Distinct: (payload class, attribute class, path).".into(),
    }
}

pub fn run(p: &EpParams) -> EpReport {
    let rt = episode_runtime(p.ep_seed, true, false, 1);
    let p2 = p.clone();
    rt.block_on(async move {
        if p2.engine != "miri" && p2.get_u64("index").unwrap_or(0) % 8 == 7 {
            many_topics(&p2).await
        } else {
            episode(&p2).await
        }
    })
}

/// Every 8th episode: many topics in one server lifetime (25-60 creations with deletions and
/// re-creations under old and new names), 1-15 messages per publish, early topics published to
/// again late. Message ids must be unique across everything the server ever issued, and every
/// delivery must carry the id its Publish returned.
async fn many_topics(p: &EpParams) -> EpReport {
    let mut rep = EpReport::default();
    let mut rng = Rng::new(p.ep_seed);
    let w = World::new(transport_of(p), true, Some(rng.below(100))).await;
    let cx = Cx::new(&w, 0);
    let mut live: Vec<(String, String)> = Vec::new(); // (topic, its subscription)
    let mut created = 0u32;
    let mut next_name = 0u32;
    let mut tag_no = 0u64;
    let rounds = rng.range(60, 140);
    let mut free_names: Vec<u32> = Vec::new();
    for _ in 0..rounds {
        match rng.below(10) {
            0..=2 => {
                // create: a fresh name, or the name of a deleted topic
                let n = if !free_names.is_empty() && rng.chance(1, 2) {
                    free_names.swap_remove(rng.below(free_names.len() as u64) as usize)
                } else {
                    next_name += 1;
                    next_name
                };
                let (t, s) = (topic_name(1, n), sub_name(1, n));
                if cx.create_topic(&t).await.is_ok() {
                    created += 1;
                    // the subscription of an earlier incarnation may still exist (detached): replace it
                    let _ = cx.delete_sub(&s).await;
                    if cx.create_sub(&s, &t, 600).await.is_ok() {
                        live.push((t, s));
                    }
                }
            }
            3 if live.len() > 2 => {
                let (t, _) = live.swap_remove(rng.below(live.len() as u64) as usize);
                if cx.delete_topic(&t).await.is_ok() {
                    if let Some(n) = t.rsplit('t').next().and_then(|x| x.parse::<u32>().ok()) {
                        free_names.push(n);
                    }
                }
            }
            _ if !live.is_empty() => {
                // publish: early topics are favoured (long-lived topics collect many messages)
                let i = if rng.chance(1, 2) { rng.below(live.len().min(3) as u64) as usize } else { rng.below(live.len() as u64) as usize };
                let k = rng.range(1, 15);
                let msgs: Vec<Msg> = (0..k)
                    .map(|_| {
                        tag_no += 1;
                        Msg::tagged(&format!("mt{}", tag_no))
                    })
                    .collect();
                let _ = cx.publish(&live[i].0, &msgs).await;
                if rng.chance(1, 3) {
                    let _ = cx.pull(&live[i].1, 1000, true).await;
                }
            }
            _ => {}
        }
    }
    for (_, s) in &live {
        let _ = cx.pull(s, 1000, true).await;
    }
    let h = w.history();
    let ids = crate::checks::order::check_identity(&h, &mut rep);
    rep.add("identity_deliveries_checked", ids.deliveries_checked);
    rep.add("topics_created_in_one_lifetime", created as u64);
    rep.add("many_topics_episodes", 1);
    rep.nontrivial = created >= 20 && ids.deliveries_checked > 0;
    rep.key = format!("many-topics created={} msgs={}", created, tag_no);
    rep.extra_keys = vec![rep.key.clone()];
    rep.history = h.abstract_lines(if rep.violations.is_empty() { 30 } else { 300 });
    w.shutdown();
    rep
}

fn payload(class: u64, rng: &mut Rng) -> (Vec<u8>, &'static str) {
    match class {
        0 => (vec![], "empty"),
        1 => (vec![rng.below(256) as u8], "1byte"),
        2 => ((0..=255u8).collect(), "all-bytes"),
        3 => ((0..65536usize).map(|i| (i * 31 % 251) as u8).collect(), "64KiB"),
        4 => ((0..(1usize << 20)).map(|i| (i * 17 % 253) as u8).collect(), "1MiB"),
        _ => {
            let n = rng.range(2, 3000) as usize;
            ((0..n).map(|_| rng.below(256) as u8).collect(), "random")
        }
    }
}

fn attributes(class: u64, rng: &mut Rng) -> (HashMap<String, String>, &'static str) {
    let mut m = HashMap::new();
    let name = match class {
        0 => "none",
        1 => {
            m.insert("k".into(), "v".into());
            "one"
        }
        2 => {
            for i in 0..50 {
                m.insert(format!("key{}", i), format!("value{}", rng.below(1000)));
            }
            "50keys"
        }
        3 => {
            m.insert(String::new(), "empty-key".into());
            m.insert("empty-value".into(), String::new());
            "empty-kv"
        }
        4 => {
            m.insert("clé-ключ-鍵".into(), "värde ✓ 値 \u{1F600}".into());
            "non-ascii"
        }
        _ => {
            m.insert("long".into(), "x".repeat(4096));
            m.insert("long2".into(), "é".repeat(2048));
            "long-values"
        }
    };
    (m, name)
}

struct Known {
    data: Vec<u8>,
    attrs: HashMap<String, String>,
    time: Option<(i64, i32)>,
    deliveries: HashMap<String, u32>,
    class: String,
}

async fn episode(p: &EpParams) -> EpReport {
    let mut rep = EpReport::default();
    let idx = p.get_u64("index").unwrap_or(0);
    let mut rng = Rng::new(p.ep_seed);
    let w = World::new(transport_of(p), true, Some(rng.below(100))).await;
    let cx = Cx::new(&w, 0);
    let t = topic_name(1, 1);
    let t_other = topic_name(2, 7);
    let (s1, s2) = (sub_name(1, 1), sub_name(1, 2));
    let mut known: HashMap<String, Known> = HashMap::new(); // by message id
    let mut keys: Vec<String> = Vec::new();
    let incarnations = rng.range(2, 4);
    let mut recreated = 0;
    cx.create_topic(&t_other).await.ok();
    for inc in 0..incarnations {
        if cx.create_topic(&t).await.is_err() {
            rep.viol("C10", "C10:status:CreateTopic", "re-creating a deleted topic failed");
            break;
        }
        if inc > 0 {
            recreated += 1;
        }
        let (a, b) = (format!("{}-{}", s1, inc), format!("{}-{}", s2, inc));
        cx.create_sub(&a, &t, 10).await.ok();
        cx.create_sub(&b, &t, 10).await.ok();
        // a publish on another topic in between (ids must not collide across topics)
        if let Ok(ids) = cx.publish(&t_other, &[Msg { tag: String::new(), data: b"other".to_vec(), attrs: HashMap::new() }]).await {
            for id in ids {
                if known.contains_key(&id) {
                    rep.viol("C09", "C09:I1:id-reused", format!("message id {} issued twice (other topic)", id));
                }
                known.insert(id, Known { data: b"other".to_vec(), attrs: HashMap::new(), time: None, deliveries: HashMap::new(), class: "other".into() });
            }
        }
        let n_msgs = rng.range(1, 4);
        let mut msgs = Vec::new();
        let mut classes = Vec::new();
        for _ in 0..n_msgs {
            let pc = if idx % 16 == 0 && inc == 0 && msgs.is_empty() { 4 } else { *rng.pick(&[0u64, 1, 2, 3, 5, 5]) };
            let ac = rng.below(6);
            let (data, pn) = payload(pc, &mut rng);
            let (attrs, an) = attributes(ac, &mut rng);
            classes.push(format!("{}+{}", pn, an));
            msgs.push(Msg { tag: String::new(), data, attrs });
        }
        // every third publish is a client that forwards messages it received elsewhere, output-only
        // fields and all: message_id (ids of earlier messages, when there are any) and publish_time
        if rng.chance(1, 3) {
            let mut earlier: Vec<String> = known.keys().cloned().collect();
            earlier.sort();
            let fwd: Vec<String> = (0..msgs.len()).map(|i| earlier.get(i).cloned().unwrap_or_else(|| format!("{}", 8589934593u64 + i as u64))).collect();
            *w.forward_ids.lock().unwrap() = fwd;
            rep.inc("publishes_with_prefilled_message_id");
        }
        let ids = match cx.publish(&t, &msgs).await {
            Ok(ids) => ids,
            Err(e) => {
                rep.viol("C17", format!("C17:bad-status:Publish:code={}", e.code() as i32), format!("publishing {:?} failed: {}", classes, e.message()));
                continue;
            }
        };
        if ids.len() != msgs.len() {
            rep.viol("C08", "C08:ids-length", format!("{} messages, {} ids", msgs.len(), ids.len()));
        }
        for (i, id) in ids.iter().enumerate() {
            if known.contains_key(id) {
                rep.viol("C09", "C09:I1:id-reused", format!("message id {} issued twice (incarnation {} of {})", id, inc, short(&t)));
            }
            if let Some(m) = msgs.get(i) {
                known.insert(id.clone(), Known { data: m.data.clone(), attrs: m.attrs.clone(), time: None, deliveries: HashMap::new(), class: classes[i].clone() });
            }
        }
        // three rounds of deliveries on both subscriptions: first, after nack, after expiry
        let mut stream = if rng.chance(1, 2) { cx.open_stream(&b, 0).await.ok() } else { None };
        for round in 0..3 {
            w.settle().await;
            let mut got: Vec<(String, Delivery)> = Vec::new();
            if let Ok(ds) = cx.pull(&a, 100, true).await {
                got.extend(ds.into_iter().map(|d| (a.clone(), d)));
            }
            match &stream {
                Some(h) => got.extend(h.take_deliveries().into_iter().map(|d| (b.clone(), d))),
                None => {
                    if let Ok(ds) = cx.pull(&b, 100, true).await {
                        got.extend(ds.into_iter().map(|d| (b.clone(), d)));
                    }
                }
            }
            // byte-exact comparison needs the raw message: fetch it from the recorder's hashes and our copy
            for (sub, d) in &got {
                let Some(k) = known.get_mut(&d.msg_id) else {
                    rep.viol("C09", "C09:I1:unknown-message-id", format!("delivery on {} carries id {} that Publish never returned", short(sub), d.msg_id));
                    continue;
                };
                *k.deliveries.entry(sub.clone()).or_insert(0) += 1;
                if d.data_len != k.data.len() || d.data_hash != crate::rng::fnv(&k.data) {
                    rep.viol("C09", "C09:I2:data-differs", format!("{} ({}) delivered on {} with {} bytes, published {}", d.msg_id, k.class, short(sub), d.data_len, k.data.len()));
                }
                if d.attrs_hash != attrs_hash(&k.attrs) {
                    rep.viol("C09", "C09:I2:attributes-differ", format!("{} ({}) delivered on {} with different attributes", d.msg_id, k.class, short(sub)));
                }
                match k.time {
                    Some(tm) if tm != d.publish_time => rep.viol("C09", "C09:I3:publish-time-changed", format!("{}: publish_time {:?} then {:?}", d.msg_id, tm, d.publish_time)),
                    Some(_) => {}
                    None => k.time = Some(d.publish_time),
                }
                if d.publish_time == (0, 0) {
                    rep.viol("C09", "C09:I3:publish-time-missing", format!("{} delivered without a publish time", d.msg_id));
                }
            }
            // make them come back
            if round == 0 {
                let ids_a: Vec<String> = got.iter().filter(|(s, _)| *s == a).map(|(_, d)| d.ack_id.clone()).collect();
                let ids_b: Vec<String> = got.iter().filter(|(s, _)| *s == b).map(|(_, d)| d.ack_id.clone()).collect();
                if !ids_a.is_empty() {
                    cx.modify(&a, &ids_a, 0).await.ok();
                }
                if !ids_b.is_empty() {
                    cx.modify(&b, &ids_b, 0).await.ok();
                }
            } else if round == 1 {
                // wall-clock time passes between deliveries as well: publish_time must still not move
                w.advance(Duration::from_secs(12)).await;
            }
        }
        if let Some(h) = stream.as_mut() {
            h.abort();
        }
        for (id, k) in known.iter() {
            if k.class != "other" {
                for (sub, n) in &k.deliveries {
                    if sub.ends_with(&format!("-{}", inc)) && *n >= 3 {
                        rep.inc("messages_delivered_3_times");
                        let _ = id;
                    }
                }
            }
        }
        keys.extend(classes.iter().map(|c| format!("{}|{}", c, if stream.is_some() { "stream" } else { "pull" })));
        cx.delete_sub(&a).await.ok();
        cx.delete_sub(&b).await.ok();
        if cx.delete_topic(&t).await.is_err() {
            break;
        }
    }
    // every message of the last incarnations must have been seen at least once per subscription round
    let thrice = rep.counters.get("messages_delivered_3_times").copied().unwrap_or(0);
    rep.nontrivial = thrice > 0 && recreated > 0;
    rep.add("topic_recreations", recreated);
    rep.add("distinct_ids_issued", known.len() as u64);
    keys.sort();
    keys.dedup();
    rep.extra_keys = keys.clone();
    rep.key = format!("{:?}", keys);
    rep.history = w.history().abstract_lines(60);
    w.shutdown();
    rep
}
