//! C14, life cycle: which endpoint is POSTed to follows the subscriptions that exist.
//!
//! Random walks over create (push to endpoint A or B / pull-only / rejected because of a
//! foreign project), delete subscription, delete topic, re-create topic, with *name reuse*,
//! and a publish-and-wait step after every operation. Both endpoints always answer 200.
//! Oracle (reference model of "which subscription exists with which endpoint"):
//!
//! * every POST names a subscription that, when the message was published, existed as a push
//!   subscription attached to the message's topic, and arrives at *that* subscription's endpoint;
//! * every message published to a live push subscription is POSTed (at least once) to it;
//! * a pull-only subscription keeps its messages for Pull (none is taken away by the push loop);
//! * at the end the push registry (hooked state) lists exactly the model's push subscriptions.

use super::common::*;
use super::Plan;
use crate::client::*;
use crate::endpoint::*;
use crate::rec::*;
use crate::report::*;
use crate::rng::Rng;
use crate::world::*;
use std::collections::{BTreeMap, BTreeSet, HashMap};
use std::time::Duration;

const INTERVAL_S: u64 = 2;

pub fn plan(p: &EpParams) -> Plan {
    let n = if tier_thorough(p) { 8_000 } else { 1_600 };
    Plan {
        episodes: n,
        exhaustive: false,
        rule: "life-cycle walks: 6-14 steps over {create push subscription to endpoint A|B, create pull-only subscription, create with a topic of a foreign project (rejected), create with a push endpoint that starts like a URL but is none, delete subscription, a DeleteSubscription abandoned by its client followed at once by a push create of the same name, delete topic, re-create topic} on 3 subscription names x 2 topics in 2 projects with name reuse; after every step one tagged message is published to every live topic and 3 push intervals pass. Both endpoints answer 200. One walk in five ends with a delete while a page is in flight to a slow endpoint, one in forty with a backlog of 2300 messages on a push subscription whose endpoint takes 20 ms per POST. Oracle: reference model of (name -> topic incarnation, endpoint); POSTs compared with the model per message, pull-only subscriptions read back, push registry compared with the model at the end. Non-trivial: a name was reused after a deletion or a rejected create, and >=1 POST was observed. Distinct: the step sequence.".into(),
    }
}

pub fn run(p: &EpParams) -> EpReport {
    let rt = episode_runtime(p.ep_seed, true, true, 1);
    let p2 = p.clone();
    rt.block_on(async move { episode(&p2).await })
}

#[derive(Clone, Debug)]
struct MSub {
    topic: String,
    topic_inc: u32,
    endpoint: Option<usize>,
    /// tags this subscription must see
    expect: Vec<String>,
    seen_by_pull: BTreeSet<String>,
}

async fn episode(p: &EpParams) -> EpReport {
    let mut rep = EpReport::default();
    let mut rng = Rng::new(p.ep_seed);
    let w = World::new(Transport::Direct, true, Some(rng.below(100))).await;
    let cx = Cx::new(&w, 0);
    let push_loop = tokio::spawn(w.app.push_loop(Duration::from_secs(INTERVAL_S)).run());
    let (Ok(ea), Ok(eb)) = (Endpoint::start(&w, "/a").await, Endpoint::start(&w, "/b").await) else {
        rep.inconclusive("could not bind a local endpoint");
        push_loop.abort();
        return rep;
    };
    let eps = [ea, eb];
    for e in &eps {
        e.set_fallback(Behaviour::Status(200));
    }
    let topics = [topic_name(1, 1), topic_name(2, 1)];
    let odd_urls = ["http", "http//host/push", "https://", "http://127.0.0.1:99999/", "http://[::1/push", "httpx://nowhere"];
    let names = [sub_name(1, 1), sub_name(1, 2), sub_name(2, 1)];
    // model
    let mut live_topic: HashMap<String, u32> = HashMap::new(); // name -> incarnation
    let mut next_inc = 0u32;
    let mut subs: BTreeMap<String, MSub> = BTreeMap::new();
    // every (tag, sub name) -> endpoint index that is allowed to receive it
    let mut allowed: HashMap<(String, String), usize> = HashMap::new();
    let mut used_before: BTreeSet<String> = BTreeSet::new();
    let mut reused = 0u64;
    let mut steps: Vec<String> = Vec::new();
    // (tag, subscription) pairs that were still undelivered when their topic was deleted
    let mut held_when_topic_deleted: Vec<(String, String)> = Vec::new();
    for t in &topics {
        if cx.create_topic(t).await.is_ok() {
            next_inc += 1;
            live_topic.insert(t.clone(), next_inc);
        }
    }
    let n_steps = rng.range(6, 14);
    let mut tag_no = 0;
    for _ in 0..n_steps {
        let name = rng.pick(&names).clone();
        let own_topic = if name.starts_with("projects/p1/") { topics[0].clone() } else { topics[1].clone() };
        let foreign_topic = if name.starts_with("projects/p1/") { topics[1].clone() } else { topics[0].clone() };
        match rng.below(13) {
            12 => {
                // a message is published and its topic deleted at once, before any push round: the
                // subscriptions live on, detached, and still owe the message to their endpoints / pullers
                let t = rng.pick(&topics).clone();
                let Some(inc) = live_topic.get(&t).copied() else { continue };
                tag_no += 1;
                let tag = format!("m{}", tag_no);
                steps.push(format!("publish+deltopic:{}", short(&t)));
                if cx.publish(&t, &[Msg::tagged(&tag)]).await.is_ok() {
                    for (n, sb) in subs.iter_mut() {
                        if sb.topic == t && sb.topic_inc == inc {
                            sb.expect.push(tag.clone());
                            held_when_topic_deleted.push((tag.clone(), n.clone()));
                            if let Some(e) = sb.endpoint.filter(|e| *e < 2) {
                                allowed.insert((tag.clone(), n.clone()), e);
                            }
                        }
                    }
                }
                if cx.delete_topic(&t).await.is_ok() {
                    live_topic.remove(&t);
                    rep.inc("topics_deleted_with_messages_still_held");
                }
            }
            11 => {
                // a push endpoint that starts like a URL but is none: whether the create is accepted or
                // rejected, the server (and its push loop) keeps serving everything else
                let k = rng.below(odd_urls.len() as u64) as usize;
                steps.push(format!("odd-endpoint{}:{}", k, short(&name)));
                match cx.create_sub_full(&name, &own_topic, 60, Some(odd_urls[k]), HashMap::new()).await {
                    Ok(_) => {
                        used_before.insert(name.clone());
                        let inc = live_topic.get(&own_topic).copied().unwrap_or(0);
                        subs.insert(name.clone(), MSub { topic: own_topic.clone(), topic_inc: inc, endpoint: Some(2 + k), expect: vec![], seen_by_pull: BTreeSet::new() });
                        rep.inc("odd_endpoints_accepted");
                    }
                    Err(st) => {
                        if !matches!(st.code() as i32, INVALID_ARGUMENT | ALREADY_EXISTS | NOT_FOUND) {
                            rep.viol("C17", format!("C17:bad-status:CreateSubscription.push_endpoint:code={}", st.code() as i32), format!("push endpoint {:?}: {}", odd_urls[k], st.message()));
                        }
                        rep.inc("odd_endpoints_rejected");
                    }
                }
            }
            10 => {
                // a DeleteSubscription whose client goes away after a few scheduler turns, with the topic
                // kept busy, and the same name created again at once (push, endpoint A or B): whatever
                // the old incarnation's deletion still does must not touch the new one
                if !subs.contains_key(&name) {
                    continue;
                }
                let e = rng.below(2) as usize;
                steps.push(format!("abandoned-del+push{}:{}", e, short(&name)));
                for i in 0..rng.range(0, 24) {
                    let (c, t2) = (Cx::new(&w, 60 + i as u32), own_topic.clone());
                    tokio::spawn(async move {
                        let _ = c.list_topic_subs(&t2, 0, "").await;
                    });
                }
                let (c2, n2) = (Cx::new(&w, 2), name.clone());
                let del = tokio::spawn(async move {
                    let _ = c2.delete_sub(&n2).await;
                });
                for _ in 0..rng.below(8) {
                    tokio::task::yield_now().await;
                }
                del.abort();
                let _ = del.await;
                let created = cx.create_sub_full(&name, &own_topic, 60, Some(&eps[e].url), HashMap::new()).await.is_ok();
                for _ in 0..3 {
                    tokio::time::sleep(Duration::from_millis(1)).await;
                    w.barrier().await;
                }
                if created {
                    used_before.insert(name.clone());
                    reused += 1;
                    let inc = live_topic.get(&own_topic).copied().unwrap_or(0);
                    subs.insert(name.clone(), MSub { topic: own_topic.clone(), topic_inc: inc, endpoint: Some(e), expect: vec![], seen_by_pull: BTreeSet::new() });
                    rep.inc("recreated_behind_an_abandoned_delete");
                } else if cx.get_sub(&name).await.is_err() {
                    // the abandoned delete went through after all
                    subs.remove(&name);
                }
            }
            0..=2 => {
                let e = rng.below(2) as usize;
                steps.push(format!("push{}:{}", e, short(&name)));
                if cx.create_sub_full(&name, &own_topic, 60, Some(&eps[e].url), HashMap::new()).await.is_ok() {
                    if used_before.contains(&name) {
                        reused += 1;
                    }
                    used_before.insert(name.clone());
                    let inc = live_topic.get(&own_topic).copied().unwrap_or(0);
                    subs.insert(name.clone(), MSub { topic: own_topic.clone(), topic_inc: inc, endpoint: Some(e), expect: vec![], seen_by_pull: BTreeSet::new() });
                }
            }
            3 => {
                steps.push(format!("pull:{}", short(&name)));
                if cx.create_sub(&name, &own_topic, 10).await.is_ok() {
                    if used_before.contains(&name) {
                        reused += 1;
                    }
                    used_before.insert(name.clone());
                    let inc = live_topic.get(&own_topic).copied().unwrap_or(0);
                    subs.insert(name.clone(), MSub { topic: own_topic.clone(), topic_inc: inc, endpoint: None, expect: vec![], seen_by_pull: BTreeSet::new() });
                }
            }
            4 => {
                // rejected: topic of another project, with a push endpoint
                let e = rng.below(2) as usize;
                steps.push(format!("foreign{}:{}", e, short(&name)));
                let reg_before = registry(&w);
                let r = cx.create_sub_full(&name, &foreign_topic, 60, Some(&eps[e].url), HashMap::new()).await;
                if r.is_err() {
                    w.barrier().await;
                    let reg_after = registry(&w);
                    if reg_after != reg_before {
                        rep.viol("C17", "C17:rejected-request-changed-state:push-registry", format!("CreateSubscription {} on {} was rejected, yet the push registry went from {:?} to {:?}", name, foreign_topic, reg_before, reg_after));
                    }
                }
                match r {
                    Ok(_) => {
                        rep.viol("C17", "C17:accepted:foreign-project-topic", format!("CreateSubscription {} on {} was accepted", name, foreign_topic));
                        subs.insert(name.clone(), MSub { topic: foreign_topic.clone(), topic_inc: live_topic.get(&foreign_topic).copied().unwrap_or(0), endpoint: Some(e), expect: vec![], seen_by_pull: BTreeSet::new() });
                    }
                    Err(_) => {
                        if !subs.contains_key(&name) {
                            // a later successful create of this name "reuses" it
                            used_before.insert(name.clone());
                        }
                        rep.inc("rejected_creates");
                    }
                }
            }
            5..=6 => {
                steps.push(format!("del:{}", short(&name)));
                if cx.delete_sub(&name).await.is_ok() {
                    subs.remove(&name);
                }
            }
            7 => {
                let t = rng.pick(&topics).clone();
                steps.push(format!("deltopic:{}", short(&t)));
                if cx.delete_topic(&t).await.is_ok() {
                    live_topic.remove(&t);
                }
            }
            _ => {
                let t = rng.pick(&topics).clone();
                steps.push(format!("mktopic:{}", short(&t)));
                if cx.create_topic(&t).await.is_ok() {
                    next_inc += 1;
                    live_topic.insert(t.clone(), next_inc);
                }
            }
        }
        // publish one message to every live topic
        for t in &topics {
            let Some(inc) = live_topic.get(t).copied() else { continue };
            tag_no += 1;
            let tag = format!("m{}", tag_no);
            // one message in four is big (tens of KiB): whatever is computed per message must not be
            // shared between the subscriptions that push it
            let mut msg = Msg::tagged(&tag);
            if rng.chance(1, 4) {
                msg.data = format!("T:{}|", tag).into_bytes();
                let n = rng.range(8_192, 70_000) as usize;
                msg.data.extend((0..n).map(|k| (k * 13 % 251) as u8));
                rep.inc("big_messages_published");
            }
            if cx.publish(t, &[msg]).await.is_ok() {
                for (n, s) in subs.iter_mut() {
                    if s.topic == *t && s.topic_inc == inc {
                        s.expect.push(tag.clone());
                        if let Some(e) = s.endpoint.filter(|e| *e < 2) {
                            allowed.insert((tag.clone(), n.clone()), e);
                        }
                    }
                }
            }
        }
        // three push rounds
        for _ in 0..3 {
            tokio::time::sleep(Duration::from_secs(INTERVAL_S)).await;
            w.barrier().await;
        }
        // pull-only subscriptions: read (and ack) what arrived
        let pull_names: Vec<String> = subs.iter().filter(|(_, s)| s.endpoint.is_none()).map(|(n, _)| n.clone()).collect();
        for n in pull_names {
            if let Ok(ds) = cx.pull(&n, 100, true).await {
                let ids: Vec<String> = ds.iter().map(|d| d.ack_id.clone()).collect();
                for d in &ds {
                    subs.get_mut(&n).unwrap().seen_by_pull.insert(d.tag.clone());
                }
                if !ids.is_empty() {
                    let _ = cx.ack(&n, &ids).await;
                }
                let s = &subs[&n];
                for tag in &s.expect {
                    if !s.seen_by_pull.contains(tag) {
                        rep.viol("C14", "C14:pull-subscription-lost-message", format!("pull-only subscription {} never got {} through Pull (steps {:?})", n, tag, steps));
                        // seen from C01: a message published to a live subscription and acknowledged by
                        // none of its consumers was never delivered to them
                        rep.viol("C01", "C01:unacked-message-never-delivered:pull-subscription-beside-push", format!("{} was published to {} {} s ago, no consumer of the subscription has acknowledged it, and Pull does not return it (steps {:?})", tag, n, 3 * INTERVAL_S, steps));
                    }
                }
                rep.inc("pull_only_read_back");
            }
        }
    }
    // one walk in five ends with a push subscription that is deleted while a page of 30 messages is
    // being pushed to a slow endpoint (every POST is answered after 2 s): pushing stops with the
    // deletion, the rest of the page is not POSTed any more
    if rng.chance(1, 5) {
        if let Some(t) = topics.iter().find(|t| live_topic.contains_key(*t)).cloned() {
            let pname = if t.starts_with("projects/p1/") { sub_name(1, 77) } else { sub_name(2, 77) };
            if cx.create_sub_full(&pname, &t, 60, Some(&eps[0].url), HashMap::new()).await.is_ok() {
                let page: Vec<Msg> = (0..30).map(|i| Msg::tagged(&format!("pg{}", i))).collect();
                for m in &page {
                    eps[0].set_script(&m.tag, vec![Behaviour::Late(2, 200); 3]);
                    allowed.insert((m.tag.clone(), pname.clone()), 0);
                }
                // (the other live subscriptions of the topic get the page as well)
                if cx.publish(&t, &page).await.is_ok() {
                    let inc = live_topic.get(&t).copied().unwrap_or(0);
                    for (n, sb) in subs.iter_mut() {
                        if sb.topic == t && sb.topic_inc == inc {
                            for m in &page {
                                sb.expect.push(m.tag.clone());
                                if let Some(e) = sb.endpoint.filter(|e| *e < 2) {
                                    allowed.insert((m.tag.clone(), n.clone()), e);
                                }
                            }
                        }
                    }
                }
                let mut seen = 0;
                for _ in 0..6000 {
                    tokio::time::sleep(Duration::from_millis(1)).await;
                    seen = eps[0].posts().iter().filter(|r| r.sub == pname).count();
                    if seen >= 3 {
                        break;
                    }
                }
                if seen >= 3 && seen < 30 && cx.delete_sub(&pname).await.is_ok() {
                    let t_del = w.vt();
                    for _ in 0..5 {
                        tokio::time::sleep(Duration::from_secs(INTERVAL_S)).await;
                        w.barrier().await;
                    }
                    let late = eps[0].posts().iter().filter(|r| r.sub == pname && r.vt_begin > t_del + 20 * MS).count();
                    if late > 0 {
                        rep.viol("C14", "C14:post-after-delete:page-in-flight", format!("{} message(s) of a page of 30 were POSTed for {} more than 20 ms after its DeleteSubscription had returned ({} had been POSTed before)", late, short(&pname), seen));
                        // seen from C11: a deleted subscription receives nothing further
                        rep.viol("C11", "C11:pushed-after-delete-returned", format!("{} message(s) were POSTed for {} more than 20 ms after its DeleteSubscription had returned", late, short(&pname)));
                    }
                    rep.inc("deleted_while_a_page_was_in_flight");
                } else {
                    let _ = cx.delete_sub(&pname).await;
                }
                steps.push("page-in-flight-delete".into());
            }
        }
    }
    // one walk in forty ends with a backlog of 2300 messages on a push subscription (ack deadline 10 s)
    // whose endpoint takes 20 ms per POST: every message is POSTed, and none a second time while the
    // lease of its first POST is still running
    if rng.chance(1, 40) {
        if let Some(t) = topics.iter().find(|t| live_topic.contains_key(*t)).cloned() {
            let pname = if t.starts_with("projects/p1/") { sub_name(1, 78) } else { sub_name(2, 78) };
            if cx.create_sub_full(&pname, &t, 10, Some(&eps[1].url), HashMap::new()).await.is_ok() {
                eps[1].set_fallback(Behaviour::LateMs(20, 200));
                let inc = live_topic.get(&t).copied().unwrap_or(0);
                let mut published = 0usize;
                for part in 0..3 {
                    let msgs: Vec<Msg> = (0..(if part == 2 { 300 } else { 1000 })).map(|i| Msg::tagged(&format!("bg{}", part * 1000 + i))).collect();
                    if cx.publish(&t, &msgs).await.is_ok() {
                        published += msgs.len();
                        for m in &msgs {
                            allowed.insert((m.tag.clone(), pname.clone()), 1);
                            for (n, sb) in subs.iter_mut() {
                                if sb.topic == t && sb.topic_inc == inc {
                                    sb.expect.push(m.tag.clone());
                                    if let Some(e) = sb.endpoint.filter(|e| *e < 2) {
                                        allowed.insert((m.tag.clone(), n.clone()), e);
                                    }
                                }
                            }
                        }
                    }
                }
                subs.insert(pname.clone(), MSub { topic: t.clone(), topic_inc: inc, endpoint: Some(1), expect: (0..published).map(|i| format!("bg{}", i)).collect(), seen_by_pull: BTreeSet::new() });
                for _ in 0..40 {
                    tokio::time::sleep(Duration::from_secs(INTERVAL_S)).await;
                    w.barrier().await;
                    let seen: BTreeSet<String> = eps[1].posts().iter().filter(|r| r.sub == pname).map(|r| r.tag.clone()).collect();
                    if seen.len() >= published {
                        break;
                    }
                }
                // two more rounds, then: per message, the POSTs in the order they began
                for _ in 0..2 {
                    tokio::time::sleep(Duration::from_secs(INTERVAL_S)).await;
                    w.barrier().await;
                }
                let mut by_tag: BTreeMap<String, Vec<u64>> = BTreeMap::new();
                for r in eps[1].posts().iter().filter(|r| r.sub == pname) {
                    by_tag.entry(r.tag.clone()).or_default().push(r.vt_begin);
                }
                let mut overlapping = 0;
                let mut example = String::new();
                for (tag, mut v) in by_tag {
                    v.sort();
                    if v.len() >= 2 && v[1] < v[0] + 10 * SEC - 200 * MS {
                        overlapping += 1;
                        if example.is_empty() {
                            example = format!("{} POSTed at {} ms and again at {} ms", tag, v[0] / MS, v[1] / MS);
                        }
                    }
                }
                if overlapping > 0 {
                    rep.viol("C03", "C03:X3:lease-overlap:push", format!("{} of {} messages of a push backlog were POSTed a second time while the lease of their first POST (ack deadline 10 s) was still running, e.g. {}", overlapping, published, example));
                }
                eps[1].set_fallback(Behaviour::Status(200));
                rep.inc("big_push_backlogs_drained");
                steps.push("big-push-backlog".into());
            }
        }
    }
    // a few more rounds of silence; longer (bounded) while a POST that has to come is still missing
    for round in 0..60 {
        tokio::time::sleep(Duration::from_secs(INTERVAL_S)).await;
        w.barrier().await;
        let seen: Vec<std::collections::HashSet<(String, String)>> = eps.iter().map(|e| e.posts().into_iter().map(|r| (r.tag, r.sub)).collect()).collect();
        let expects: HashMap<&String, std::collections::HashSet<&String>> = subs.iter().map(|(n, s)| (n, s.expect.iter().collect())).collect();
        let missing = allowed.iter().any(|((tag, name), e)| expects.get(name).map(|x| x.contains(tag)).unwrap_or(false) && !seen[*e].contains(&(tag.clone(), name.clone())));
        if round >= 4 && !missing {
            break;
        }
    }
    // the push loop is still running (a panic inside it takes the whole server down in `main`)
    if push_loop.is_finished() {
        rep.viol("C17", "C17:push-loop-died", format!("the push loop task ended during the walk (steps {:?})", steps));
        rep.viol("C14", "C14:push-loop-died", format!("the push loop task ended during the walk (steps {:?})", steps));
    }
    // ---- oracle over the POST logs --------------------------------------------------------------------
    let mut n_posts = 0;
    let mut posted: BTreeSet<(String, String)> = BTreeSet::new();
    for (ei, e) in eps.iter().enumerate() {
        for r in e.posts() {
            n_posts += 1;
            rep.inc("posts_observed");
            match allowed.get(&(r.tag.clone(), r.sub.clone())) {
                Some(want) if *want == ei => {
                    let in_time = r.vt_answer.map(|a| a.saturating_sub(r.vt_begin) < 30 * SEC).unwrap_or(false);
                    if !in_time {
                        rep.inc("posts_answered_late_on_the_lumpy_clock");
                    } else if !posted.insert((r.tag.clone(), r.sub.clone())) {
                        rep.viol("C14", "C14:repost-after-accept:status=200", format!("{} for {} POSTed twice although the first POST was answered 200", r.tag, r.sub));
                    }
                }
                Some(want) => {
                    rep.viol("C14", "C14:post-to-wrong-endpoint", format!("{} for {} arrived at endpoint {} but the subscription was created with endpoint {} (steps {:?})", r.tag, r.sub, ei, want, steps));
                }
                None => {
                    let kind = if names.iter().any(|n| *n == r.sub) { "no-such-push-subscription-at-publish-time" } else { "unknown-subscription" };
                    rep.viol("C14", format!("C14:post-unexpected:{}", kind), format!("endpoint {} got a POST of {} naming {} (steps {:?})", ei, r.tag, r.sub, steps));
                }
            }
        }
    }
    let expect_sets: HashMap<&String, std::collections::HashSet<&String>> = subs.iter().map(|(n, s)| (n, s.expect.iter().collect())).collect();
    for ((tag, name), e) in &allowed {
        // a subscription deleted (or detached) shortly after the publish may legitimately never have pushed it
        let still = expect_sets.get(name).map(|x| x.contains(tag)).unwrap_or(false);
        if still && !posted.contains(&(tag.clone(), name.clone())) {
            if held_when_topic_deleted.iter().any(|(t2, n2)| t2 == tag && n2 == name) {
                rep.viol("C11", "C11:detached-subscription-stopped-serving", format!("{} was held by {} when its topic was deleted and was never pushed afterwards (steps {:?})", tag, name, steps));
            }
            rep.viol("C14", "C14:never-posted", format!("{} published to live push subscription {} was never POSTed to endpoint {} (steps {:?})", tag, name, e, steps));
        }
    }
    // ---- hooked state: the registry lists exactly the model's push subscriptions -----------------------
    let reg = registry(&w);
    let mut model: Vec<(String, String)> = subs.iter().filter_map(|(n, s)| s.endpoint.map(|e| (n.clone(), if e < 2 { eps[e].url.clone() } else { odd_urls[e - 2].to_string() }))).collect();
    model.sort();
    if reg != model {
        rep.viol("C14", "C14:registry-differs-from-model", format!("push registry {:?}, live push subscriptions {:?} (steps {:?})", reg, model, steps));
    }
    // seen from C16: a request abandoned by its client must leave the state of "completed" or
    // "never received" - in particular for whoever uses the name next
    if steps.iter().any(|x| x.starts_with("abandoned-del")) {
        let n14 = rep.violations.iter().filter(|v| v.property == "C14").count();
        if n14 > 0 {
            let first = rep.violations.iter().find(|v| v.property == "C14").map(|v| v.detail.clone()).unwrap_or_default();
            rep.viol("C16", "C16:state:abandoned-delete-then-recreate", format!("after a DeleteSubscription abandoned by its client and a create of the same name: {}", first));
        }
    }
    rep.add("names_reused", reused);
    rep.nontrivial = reused > 0 && n_posts > 0;
    rep.key = format!("steps={:?}", steps);
    rep.history = w.history().abstract_lines(200);
    push_loop.abort();
    w.shutdown();
    rep
}

fn registry(w: &World) -> Vec<(String, String)> {
    let mut reg: Vec<(String, String)> = w.reg.entries().into_iter().map(|(n, c)| (n.to_string(), c.endpoint.clone())).collect();
    reg.sort();
    reg
}
