//! C17 — malformed requests are rejected cleanly and change nothing.
//!
//! Sequential episodes: a small populated server (topics, subscriptions,
//! backlog, leases) receives a seeded series of requests with one corrupted
//! field (or a pair), from structured generators. After every request the
//! monitor requires a gRPC status (no hang, no panic, no UNKNOWN / INTERNAL /
//! transport error), INVALID_ARGUMENT where a property pins it, and - whenever
//! the answer is an error - the complete observable state to equal the
//! reference model's "request never received" state (DESIGN 4/C17).

use super::common::*;
use super::Plan;
use crate::client::*;
use crate::model::*;
use crate::rec::*;
use crate::report::*;
use crate::rng::Rng;
use crate::seq::Seq;
use crate::world::*;
use deltio::pubsub_proto as pb;
use std::collections::BTreeSet;
use std::time::Duration;

pub fn plan(p: &EpParams) -> Plan {
    let n = if p.engine == "miri" {
        6
    } else if p.engine == "mt" {
        400
    } else if tier_thorough(p) {
        60_000
    } else {
        5_000
    };
    Plan {
        episodes: n,
        exhaustive: false,
        rule: "sequential episodes on a populated server (2 topics, 3 subscriptions, backlog and leases): 20-30 seeded requests each with one corrupted field (hostile resource names incl. near-miss names, empty / 1 MiB / NUL / non-ASCII / huge non-ASCII / slash-heavy strings; boundary integers for page_size, max_messages, ack_deadline_seconds, modify seconds, max_outstanding_messages; ack-ID batches with one bad element at each position (non-numeric, signed, padded, fractional, full-width digits, decimal numbers just past 2^64-1 such as 2^64 and 2^64+1, and batches that are bad all over: 100 opaque 180-character IDs or 3000 short ones); hostile page tokens; unsupported push endpoints; StreamingPull first messages and control messages that mix valid acks with invalid modifications, repeat subscription / max_outstanding_* or have mismatched arrays, with and without any ack IDs), every 5th request a pair of corruptions. Non-trivial: >=1 corrupted request was answered. Distinct: (request type, field, corruption class).".into(),
    }
}

pub fn run(p: &EpParams) -> EpReport {
    let mt = p.engine == "mt";
    let rt = episode_runtime(p.ep_seed, !mt, false, if mt { 4 } else { 1 });
    let p2 = p.clone();
    rt.block_on(async move { episode(&p2).await })
}

#[derive(Clone, Copy, PartialEq, Debug)]
enum NameClass {
    /// outside the grammar: INVALID_ARGUMENT is demanded
    Bad,
    /// inside the grammar and canonical, but names nothing that exists
    Missing,
}

fn bad_names(kind: &str, rng: &mut Rng) -> (String, NameClass, &'static str) {
    let seg = if kind == "topic" { "topics" } else { "subscriptions" };
    let other = if kind == "topic" { "subscriptions" } else { "topics" };
    let choices: Vec<(String, NameClass, &'static str)> = vec![
        (String::new(), NameClass::Bad, "empty"),
        ("x".into(), NameClass::Bad, "short"),
        ("a".repeat(1 << 20), NameClass::Bad, "1MiB"),
        ("projects/".into(), NameClass::Bad, "prefix-only"),
        ("projects/p1".into(), NameClass::Bad, "project-only"),
        (format!("projects/p1/{}", seg), NameClass::Bad, "no-id"),
        (format!("projects/p1/{}/t1", other), NameClass::Bad, "other-segment"),
        (format!("projects/p1/{}/t1", &seg[..seg.len() - 1]), NameClass::Bad, "near-miss-segment"),
        (format!("projects/p1/{}x/t1", seg), NameClass::Bad, "near-miss-segment"),
        (format!("Projects/p1/{}/t1", seg), NameClass::Bad, "near-miss-prefix"),
        (format!("project/p1/{}/t1", seg), NameClass::Bad, "near-miss-prefix"),
        (format!("/projects/p1/{}/t1", seg), NameClass::Bad, "leading-slash"),
        ("/".repeat(200), NameClass::Bad, "slashes"),
        (format!("projects/p1/{}\u{0}/t1", seg), NameClass::Bad, "nul"),
        ("projects/é".into(), NameClass::Bad, "non-ascii-short"),
        // huge and non-ASCII at once (multi-byte characters across every power-of-two byte offset)
        ("鍵".repeat(90_000), NameClass::Bad, "huge-non-ascii"),
        (format!("x{}", "é".repeat(20_000)), NameClass::Bad, "huge-non-ascii"),
        (format!("projects/p1/{}/{}", seg, "é".repeat(40_000)), NameClass::Missing, "missing-huge-non-ascii"),
        (format!("{}/p1/projects/t1", seg), NameClass::Bad, "swapped"),
        (format!("projects/p1/{}/nope", seg), NameClass::Missing, "missing"),
        (format!("projects/é/{}/ü", seg), NameClass::Missing, "missing-non-ascii"),
        (format!("projects/p1/{}/{}", seg, "n".repeat(5000)), NameClass::Missing, "missing-long"),
        (format!("projects/p1/{}/a/b/c", seg), NameClass::Missing, "missing-inner-slashes"),
        (format!("projects/p9/{}/t1", seg), NameClass::Missing, "missing-other-project"),
    ];
    choices[rng.below(choices.len() as u64) as usize].clone()
}

// (the 20-digit ones are just past u64::MAX: 2^64, 2^64+1 - which would alias ack ID 1 if it wrapped -, 2^64+2 and 20 nines)
const BAD_ACK_IDS: [&str; 14] = ["", "abc", " 1", "1 ", "1a", "99999999999999999999999999", "１２", "-1", "1.0", "18446744073709551616", "18446744073709551617", "18446744073709551618", "99999999999999999999", "184467440737095516150"];
const BAD_TOKENS: [&str; 14] = [
    "!", "AAAA", "AAAAAAAAAAAA", "not base64 at all", "=", "AAAAAAAAAAA", "é", "AAAAAAAAAAAAAAAAAAAAAA==",
    // decodable 8-byte tokens (little-endian offsets 1, 2, 3, 1000, 2^63, 2^64-1): beyond what exists
    "AQAAAAAAAAA=", "AgAAAAAAAAA=", "AwAAAAAAAAA=", "6AMAAAAAAAA=", "AAAAAAAAAIA=", "//////////8=",
];
const BAD_ENDPOINTS: [&str; 5] = ["ftp://example.com/x", "file:///etc/passwd", "//example.com", "htp://example.com", "example.com/push"];

struct St {
    light: bool,
    seq: Seq,
    rep: EpReport,
    keys: BTreeSet<String>,
    answered: u64,
}

impl St {
    /// Judges the answer to a hostile request. `demand`: the code that is required, if any.
    async fn judge(&mut self, what: &str, class: &str, code: i32, demand: Option<i32>, admitted: &[i32]) {
        self.answered += 1;
        self.keys.insert(format!("{}|{}", what, class));
        self.seq.steps.push(format!("HOSTILE {} [{}] -> {}", what, class, code));
        if code == -1 {
            self.rep.viol("C17", format!("C17:panic:{}", what), format!("{} with {} panicked", what, class));
        } else if matches!(code, UNKNOWN | INTERNAL | UNAVAILABLE) {
            let msg = LAST_MESSAGE.with(|m| m.borrow().clone());
            self.rep.viol("C17", format!("C17:bad-status:{}:code={}", what, code), format!("{} with {} answered status {} ({:?})", what, class, code, msg));
        } else if let Some(d) = demand {
            if code != d {
                self.rep.viol("C17", format!("C17:wrong-status:{}:{}", what, class), format!("{} with {} answered {} where {} is required", what, class, code, d));
            }
        } else if !admitted.contains(&code) {
            self.rep.viol("C17", format!("C17:unexpected-status:{}:code={}", what, code), format!("{} with {} answered {}", what, class, code));
        }
        if code != 0 {
            self.unchanged(what, class).await;
        }
    }

    /// After an error answer: stats of every subscription and all listings equal the model.
    async fn unchanged(&mut self, what: &str, class: &str) {
        self.seq.after_step("Rejected").await;
        if !self.light {
            self.listings(what, class).await;
        }
    }

    async fn listings(&mut self, what: &str, class: &str) {
        for pr in ["projects/p1", "projects/p2"] {
            let want = self.seq.m.topics_in_project(pr);
            match self.seq.cx.list_topics(pr, 1000, "").await {
                Ok((got, _)) => {
                    if got != want {
                        self.rep.viol("C17", "C17:rejected-request-changed-state:topics", format!("after {} [{}]: ListTopics({}) = {:?}, model {:?}", what, class, pr, got, want));
                    }
                }
                Err(e) => self.rep.viol("C17", "C17:server-not-serving-after", format!("ListTopics after {} [{}]: {}", what, class, e.message())),
            }
            let want = self.seq.m.subs_in_project(pr);
            match self.seq.cx.list_subs(pr, 1000, "").await {
                Ok((got, _)) => {
                    let names: Vec<String> = got.iter().map(|s| s.name.clone()).collect();
                    if names != want {
                        self.rep.viol("C17", "C17:rejected-request-changed-state:subscriptions", format!("after {} [{}]: ListSubscriptions({}) = {:?}, model {:?}", what, class, pr, names, want));
                    }
                }
                Err(e) => self.rep.viol("C17", "C17:server-not-serving-after", format!("ListSubscriptions after {} [{}]: {}", what, class, e.message())),
            }
        }
        let topics: Vec<String> = self.seq.m.topic_order.clone();
        for t in topics {
            let want = self.seq.m.attached(&t);
            if let Ok((got, _)) = self.seq.cx.list_topic_subs(&t, 1000, "").await {
                if got != want {
                    self.rep.viol("C17", "C17:rejected-request-changed-state:attachments", format!("after {} [{}]: ListTopicSubscriptions({}) = {:?}, model {:?}", what, class, short(&t), got, want));
                }
            }
        }
    }
}

thread_local! {
    static LAST_MESSAGE: std::cell::RefCell<String> = const { std::cell::RefCell::new(String::new()) };
}

fn code_of<T>(r: &Result<T, tonic::Status>) -> i32 {
    match r {
        Ok(_) => 0,
        Err(s) => {
            LAST_MESSAGE.with(|m| *m.borrow_mut() = crate::rec::trunc(s.message(), 300));
            if s.message().starts_with("PANIC:") {
                -1
            } else {
                s.code() as i32
            }
        }
    }
}

async fn bounded<T>(rep: &mut EpReport, what: &str, fut: impl std::future::Future<Output = T>) -> Option<T> {
    match tokio::time::timeout(Duration::from_secs(3600), fut).await {
        Ok(v) => Some(v),
        Err(_) => {
            rep.viol("C17", format!("C17:hang:{}", what), format!("{} did not answer within one virtual hour", what));
            None
        }
    }
}

async fn episode(p: &EpParams) -> EpReport {
    let mut rng = Rng::new(p.ep_seed);
    let mt = p.engine == "mt";
    let w = World::new(transport_of(p), !mt, Some(rng.below(100))).await;
    let mut st = St { light: false, seq: Seq::new(&w), rep: EpReport::default(), keys: BTreeSet::new(), answered: 0 };
    if mt {
        st.seq.check_stats_every_step = true;
    }
    let (t1, t2) = (topic_name(1, 1), topic_name(2, 1));
    let (s1, s2, s3) = (sub_name(1, 1), sub_name(1, 2), sub_name(2, 1));
    st.seq.create_topic(&t1).await;
    st.seq.create_topic(&t2).await;
    st.seq.create_sub(&s1, &t1, 10).await;
    st.seq.create_sub(&s2, &t1, 30).await;
    st.seq.create_sub(&s3, &t2, 10).await;
    st.seq.publish(&t1, 4).await;
    st.seq.publish(&t2, 2).await;
    let mut leases1: Vec<String> = st.seq.pull(&s1, 2, true).await.iter().map(|d| d.ack_id.clone()).collect();
    st.seq.pull(&s3, 1, true).await;

    let miri = p.engine == "miri";
    // Miri executes ~0.5 s per RPC: fewer requests, listings compared at the end only
    let n = if miri { 6 } else { rng.range(20, 30) };
    st.light = miri;
    for step in 0..n {
        let pair = step % 5 == 4;
        let cx = st.seq.cx.clone();
        match rng.below(18) {
            0 => {
                // names in publisher RPCs
                let (name, class, cl) = bad_names("topic", &mut rng);
                let demand = if class == NameClass::Bad { Some(INVALID_ARGUMENT) } else { Some(NOT_FOUND) };
                match rng.below(5) {
                    0 => {
                        if class == NameClass::Bad {
                            if let Some(r) = bounded(&mut st.rep, "CreateTopic", cx.create_topic(&name)).await {
                                st.judge("CreateTopic.name", cl, code_of(&r), demand, &[]).await;
                            }
                        }
                    }
                    1 => {
                        if let Some(r) = bounded(&mut st.rep, "GetTopic", cx.get_topic(&name)).await {
                            st.judge("GetTopic.topic", cl, code_of(&r), demand, &[]).await;
                        }
                    }
                    2 => {
                        if let Some(r) = bounded(&mut st.rep, "DeleteTopic", cx.delete_topic(&name)).await {
                            st.judge("DeleteTopic.topic", cl, code_of(&r), demand, &[]).await;
                        }
                    }
                    3 => {
                        let msgs = st.seq.fresh_msgs(2);
                        if let Some(r) = bounded(&mut st.rep, "Publish", cx.publish(&name, &msgs)).await {
                            st.judge("Publish.topic", cl, code_of(&r), demand, &[]).await;
                        }
                    }
                    _ => {
                        let size = if pair { -1 } else { 0 };
                        if let Some(r) = bounded(&mut st.rep, "ListTopicSubscriptions", cx.list_topic_subs(&name, size, "")).await {
                            let d = if pair && class != NameClass::Bad { None } else { demand };
                            st.judge("ListTopicSubscriptions.topic", cl, code_of(&r), d, &[INVALID_ARGUMENT, NOT_FOUND]).await;
                        }
                    }
                }
            }
            1 => {
                // names in subscriber RPCs
                let (name, class, cl) = bad_names("subscription", &mut rng);
                let demand = if class == NameClass::Bad { Some(INVALID_ARGUMENT) } else { Some(NOT_FOUND) };
                match rng.below(6) {
                    0 => {
                        if let Some(r) = bounded(&mut st.rep, "GetSubscription", cx.get_sub(&name)).await {
                            st.judge("GetSubscription.subscription", cl, code_of(&r), demand, &[]).await;
                        }
                    }
                    1 => {
                        if let Some(r) = bounded(&mut st.rep, "DeleteSubscription", cx.delete_sub(&name)).await {
                            st.judge("DeleteSubscription.subscription", cl, code_of(&r), demand, &[]).await;
                        }
                    }
                    2 => {
                        if let Some(r) = bounded(&mut st.rep, "Pull", cx.pull(&name, 1, rng.chance(1, 2))).await {
                            st.judge("Pull.subscription", cl, code_of(&r), demand, &[]).await;
                        }
                    }
                    3 => {
                        if let Some(r) = bounded(&mut st.rep, "Acknowledge", cx.ack(&name, &leases1)).await {
                            st.judge("Acknowledge.subscription", cl, code_of(&r), demand, &[]).await;
                        }
                    }
                    4 => {
                        if let Some(r) = bounded(&mut st.rep, "ModifyAckDeadline", cx.modify(&name, &leases1, 0)).await {
                            st.judge("ModifyAckDeadline.subscription", cl, code_of(&r), demand, &[]).await;
                        }
                    }
                    _ => {
                        if let Some(r) = bounded(&mut st.rep, "StreamingPull", cx.open_stream(&name, 0)).await {
                            let c = match &r {
                                Ok(_) => 0,
                                Err(s) => s.code() as i32,
                            };
                            st.judge("StreamingPull.subscription", cl, c, demand, &[]).await;
                        }
                    }
                }
            }
            2 => {
                // CreateSubscription: bad name / bad topic / other project / unsupported endpoint
                match rng.below(4) {
                    0 => {
                        let (name, class, cl) = bad_names("subscription", &mut rng);
                        if class == NameClass::Bad {
                            if let Some(r) = bounded(&mut st.rep, "CreateSubscription", cx.create_sub(&name, &t1, 10)).await {
                                st.judge("CreateSubscription.name", cl, code_of(&r), Some(INVALID_ARGUMENT), &[]).await;
                            }
                        }
                    }
                    1 => {
                        let (name, class, cl) = bad_names("topic", &mut rng);
                        let demand = if class == NameClass::Bad { INVALID_ARGUMENT } else { NOT_FOUND };
                        let fresh = sub_name(1, 50 + step as u32);
                        if let Some(r) = bounded(&mut st.rep, "CreateSubscription", cx.create_sub(&fresh, &name, 10)).await {
                            st.judge("CreateSubscription.topic", cl, code_of(&r), Some(demand), &[]).await;
                        }
                    }
                    2 => {
                        // subscription in another project than its topic
                        let fresh = sub_name(2, 50 + step as u32);
                        if let Some(r) = bounded(&mut st.rep, "CreateSubscription", cx.create_sub(&fresh, &t1, 10)).await {
                            st.judge("CreateSubscription.project", "other-project", code_of(&r), Some(INVALID_ARGUMENT), &[]).await;
                        }
                    }
                    _ => {
                        let ep = *rng.pick(&BAD_ENDPOINTS);
                        let fresh = sub_name(1, 50 + step as u32);
                        if let Some(r) = bounded(&mut st.rep, "CreateSubscription", cx.create_sub_full(&fresh, &t1, 10, Some(ep), Default::default())).await {
                            st.judge("CreateSubscription.push_endpoint", "unsupported-scheme", code_of(&r), Some(INVALID_ARGUMENT), &[]).await;
                        }
                    }
                }
            }
            3 => {
                // ack-ID batch with one bad element at each position
                let bad = *rng.pick(&BAD_ACK_IDS);
                let mut ids = leases1.clone();
                let pos = rng.below(ids.len() as u64 + 1) as usize;
                ids.insert(pos, bad.to_string());
                // one request in five is bad all over: a hundred opaque 180-character IDs (what another
                // Pub/Sub implementation hands out), or a few thousand short ones
                let mut class = format!("bad-id@{}", pos.min(2));
                if rng.chance(1, 5) {
                    if rng.chance(1, 2) {
                        ids.extend((0..100).map(|i| format!("{}{:04}", "RVNEUAYWLF1GSFE3GQhoUQ5PXiM_NSAoRRIJB08CKF15MU0sQVhwaFENGXJ9YHxrUgsFB0J8fXJ9W1lbdQVRDRtzfWB9a1kTAgZCe3x5eFxZ".repeat(2).chars().take(176).collect::<String>(), i)));
                        class = "100-long-bad-ids".into();
                    } else {
                        ids.extend((0..3000).map(|i| format!("x{}", i)));
                        class = "3000-bad-ids".into();
                    }
                }
                if let Some(r) = bounded(&mut st.rep, "Acknowledge", cx.ack(&s1, &ids)).await {
                    st.judge("Acknowledge.ack_ids", &class, code_of(&r), Some(INVALID_ARGUMENT), &[]).await;
                }
            }
            4 => {
                let bad = *rng.pick(&BAD_ACK_IDS);
                let mut ids = leases1.clone();
                let pos = rng.below(ids.len() as u64 + 1) as usize;
                ids.insert(pos, bad.to_string());
                let secs = *rng.pick(&[0, 30, 600]);
                if let Some(r) = bounded(&mut st.rep, "ModifyAckDeadline", cx.modify(&s1, &ids, secs)).await {
                    st.judge("ModifyAckDeadline.ack_ids", &format!("bad-id@{}", pos.min(2)), code_of(&r), Some(INVALID_ARGUMENT), &[]).await;
                }
            }
            5 => {
                let secs = *rng.pick(&[i32::MIN, -1, -600]);
                if let Some(r) = bounded(&mut st.rep, "ModifyAckDeadline", cx.modify(&s1, &leases1, secs)).await {
                    let demand = if leases1.is_empty() { None } else { Some(INVALID_ARGUMENT) };
                    st.judge("ModifyAckDeadline.ack_deadline_seconds", "negative", code_of(&r), demand, &[0, INVALID_ARGUMENT]).await;
                }
            }
            6 => {
                // page size / token
                let which = rng.below(3);
                let size = *rng.pick(&[i32::MIN, -1]);
                let r = match which {
                    0 => bounded(&mut st.rep, "ListTopics", cx.list_topics("projects/p1", size, "")).await.map(|r| code_of(&r)),
                    1 => bounded(&mut st.rep, "ListSubscriptions", cx.list_subs("projects/p1", size, "")).await.map(|r| code_of(&r)),
                    _ => bounded(&mut st.rep, "ListTopicSubscriptions", cx.list_topic_subs(&t1, size, "")).await.map(|r| code_of(&r)),
                };
                if let Some(c) = r {
                    st.judge(["ListTopics.page_size", "ListSubscriptions.page_size", "ListTopicSubscriptions.page_size"][which as usize], "negative", c, Some(INVALID_ARGUMENT), &[]).await;
                }
            }
            7 => {
                let which = rng.below(3);
                let tok = *rng.pick(&BAD_TOKENS);
                let r = match which {
                    0 => bounded(&mut st.rep, "ListTopics", cx.list_topics("projects/p1", 0, tok)).await.map(|r| code_of(&r)),
                    1 => bounded(&mut st.rep, "ListSubscriptions", cx.list_subs("projects/p1", 0, tok)).await.map(|r| code_of(&r)),
                    _ => bounded(&mut st.rep, "ListTopicSubscriptions", cx.list_topic_subs(&t1, 0, tok)).await.map(|r| code_of(&r)),
                };
                if let Some(c) = r {
                    // undecodable tokens must be rejected; a decodable one yields a (possibly empty) page
                    let decodable = tok == "AAAAAAAAAAA" || tok == "AAAAAAAAAAA=" || (tok.len() == 12 && tok.ends_with('=') && !tok.ends_with("=="));
                    let demand = if decodable { None } else { Some(INVALID_ARGUMENT) };
                    st.judge(["ListTopics.page_token", "ListSubscriptions.page_token", "ListTopicSubscriptions.page_token"][which as usize], "hostile-token", c, demand, &[0, INVALID_ARGUMENT]).await;
                }
            }
            8 => {
                // project strings in List*
                let pr = rng.pick(&["", "p1", "projects", "project/p1", "Projects/p1", "\u{0}"]).to_string();
                let r = if rng.chance(1, 2) {
                    bounded(&mut st.rep, "ListTopics", cx.list_topics(&pr, 0, "")).await.map(|r| code_of(&r))
                } else {
                    bounded(&mut st.rep, "ListSubscriptions", cx.list_subs(&pr, 0, "")).await.map(|r| code_of(&r))
                };
                if let Some(c) = r {
                    st.judge("List.project", "malformed-project", c, Some(INVALID_ARGUMENT), &[]).await;
                }
            }
            9 => {
                // boundary max_messages on a live subscription: served, and admissible for the model
                let max = *rng.pick(&[i32::MIN, -1, 0, 1, 65535, 65536, i32::MAX]);
                let sub = if rng.chance(1, 2) { s2.clone() } else { s3.clone() };
                st.keys.insert(format!("Pull.max_messages|{}", max));
                st.seq.pull(&sub, max, true).await;
                st.answered += 1;
            }
            10 => {
                // StreamingPull first message: out-of-range max_outstanding_messages
                let v = *rng.pick(&[-1i64, 65536, i64::MAX, i64::MIN]);
                let first = pb::StreamingPullRequest { subscription: s2.clone(), stream_ack_deadline_seconds: 10, max_outstanding_messages: v, ..Default::default() };
                if let Some(r) = bounded(&mut st.rep, "StreamingPull", cx.open_stream_raw(first)).await {
                    let c = match &r {
                        Ok(_) => 0,
                        Err(s) => s.code() as i32,
                    };
                    drop(r);
                    st.judge("StreamingPull.max_outstanding_messages", "out-of-range", c, Some(INVALID_ARGUMENT), &[]).await;
                }
            }
            11 | 12 | 13 => {
                // StreamingPull control messages on s1's existing leases
                if leases1.is_empty() {
                    continue;
                }
                let Some(Ok(h)) = bounded(&mut st.rep, "StreamingPull", cx.open_stream(&s1, 0)).await else { continue };
                w.settle().await;
                let a = leases1[0].clone();
                let b = leases1.get(1).cloned().unwrap_or_else(|| a.clone());
                let (what, class, req) = match rng.below(10) {
                    7 => ("StreamingPull.control", "repeated-subscription-no-ids", pb::StreamingPullRequest { subscription: s1.clone(), ..Default::default() }),
                    8 => ("StreamingPull.control", "repeated-max-outstanding-no-ids", pb::StreamingPullRequest { max_outstanding_messages: 5, ..Default::default() }),
                    9 => ("StreamingPull.control", "seconds-without-ids", pb::StreamingPullRequest { modify_deadline_seconds: vec![30], ..Default::default() }),
                    0 => ("StreamingPull.control", "valid-acks+negative-seconds", pb::StreamingPullRequest { ack_ids: vec![a.clone()], modify_deadline_ack_ids: vec![b.clone()], modify_deadline_seconds: vec![-1], ..Default::default() }),
                    1 => ("StreamingPull.control", "valid-acks+bad-modify-id", pb::StreamingPullRequest { ack_ids: vec![a.clone()], modify_deadline_ack_ids: vec![rng.pick(&BAD_ACK_IDS).to_string()], modify_deadline_seconds: vec![30], ..Default::default() }),
                    2 if rng.chance(1, 4) => ("StreamingPull.control", "3000-bad-ack-ids+valid-modify", pb::StreamingPullRequest { ack_ids: (0..3000).map(|i| format!("x{}", i)).collect(), modify_deadline_ack_ids: vec![b.clone()], modify_deadline_seconds: vec![0], ..Default::default() }),
                    2 => ("StreamingPull.control", "bad-ack-id+valid-modify", pb::StreamingPullRequest { ack_ids: vec![rng.pick(&BAD_ACK_IDS).to_string()], modify_deadline_ack_ids: vec![b.clone()], modify_deadline_seconds: vec![0], ..Default::default() }),
                    3 => ("StreamingPull.control", "repeated-subscription", pb::StreamingPullRequest { subscription: s1.clone(), ack_ids: vec![a.clone()], ..Default::default() }),
                    4 => ("StreamingPull.control", "repeated-max-outstanding", pb::StreamingPullRequest { max_outstanding_messages: 5, ack_ids: vec![a.clone()], ..Default::default() }),
                    5 => ("StreamingPull.control", "repeated-max-bytes", pb::StreamingPullRequest { max_outstanding_bytes: 5, modify_deadline_ack_ids: vec![a.clone()], modify_deadline_seconds: vec![0], ..Default::default() }),
                    _ => ("StreamingPull.control", "mismatched-arrays", pb::StreamingPullRequest { ack_ids: vec![a.clone()], modify_deadline_ack_ids: vec![b.clone()], modify_deadline_seconds: vec![], ..Default::default() }),
                };
                h.send_raw(req);
                w.settle().await;
                let c = match h.ended() {
                    Some(c) => c,
                    None => {
                        w.advance(Duration::from_secs(1)).await;
                        h.ended().unwrap_or(0)
                    }
                };
                // what the stream itself pulled while it was open became leases (read after the stream
                // has ended, so that nothing it pulled late is missed in real-time runs)
                if mt {
                    tokio::time::sleep(Duration::from_millis(20)).await;
                }
                let got = h.deliveries();
                if !got.is_empty() {
                    let now = st.seq.now();
                    let items: Vec<(String, String, String)> = got.iter().map(|d| (d.ack_id.clone(), d.tag.clone(), d.msg_id.clone())).collect();
                    st.seq.m.pulled(&s1, &items, 0, false, now, now, Via::Stream);
                }
                drop(h);
                st.judge(what, class, c, Some(INVALID_ARGUMENT), &[]).await;
            }
            14 => {
                // empty request stream
                let (tx, rx) = tokio::sync::mpsc::unbounded_channel::<pb::StreamingPullRequest>();
                drop(tx);
                let mut c = deltio::pubsub_proto::subscriber_client::SubscriberClient::new(w.svc());
                let r = bounded(&mut st.rep, "StreamingPull", c.streaming_pull(tokio_stream::wrappers::UnboundedReceiverStream::new(rx))).await;
                if let Some(r) = r {
                    let code = match r {
                        Ok(_) => 0,
                        Err(s) => s.code() as i32,
                    };
                    st.judge("StreamingPull.first", "empty-request-stream", code, None, &[CANCELLED, INVALID_ARGUMENT]).await;
                }
            }
            15 => {
                // boundary ack_deadline_seconds on create: served; Get reports the effective value
                let d = *rng.pick(&[i32::MIN, -1, 0, 1, 9, i32::MAX]);
                let fresh = sub_name(1, 100 + step as u32);
                st.keys.insert(format!("CreateSubscription.ack_deadline_seconds|{}", d));
                st.seq.create_sub(&fresh, &t1, d).await;
                if let Ok(v) = st.seq.cx.get_sub(&fresh).await {
                    let want = effective_deadline(d) as i32;
                    if v.deadline_s != want {
                        st.rep.viol("C10", "C10:get-reports-wrong-deadline", format!("created with {}, Get reports {}, expected {}", d, v.deadline_s, want));
                    }
                }
                st.answered += 1;
            }
            16 => {
                // valid traffic in between: the server keeps serving
                match rng.below(4) {
                    0 => {
                        st.seq.publish(&t1, 2).await;
                    }
                    1 => {
                        let got = st.seq.pull(&s1, 2, true).await;
                        leases1.extend(got.iter().map(|d| d.ack_id.clone()));
                    }
                    2 => {
                        if !leases1.is_empty() {
                            let id = leases1.remove(0);
                            st.seq.ack(&s1, &[id]).await;
                        }
                    }
                    _ => {
                        let ms = if mt { rng.range(1, 5) } else { rng.range(1, 3000) };
                        st.seq.advance(Duration::from_millis(ms)).await;
                    }
                }
                let live: Vec<String> = st.seq.m.subs[&s1].leases.keys().cloned().collect();
                leases1.retain(|i| live.contains(i));
            }
            _ => {
                // unimplemented RPCs answer UNIMPLEMENTED and change nothing
                let mut c = deltio::pubsub_proto::subscriber_client::SubscriberClient::new(w.svc());
                let r = bounded(&mut st.rep, "Seek", c.seek(pb::SeekRequest { subscription: s1.clone(), target: None })).await;
                if let Some(r) = r {
                    let code = match r {
                        Ok(_) => 0,
                        Err(s) => s.code() as i32,
                    };
                    st.judge("Seek", "unimplemented", code, None, &[UNIMPLEMENTED, INVALID_ARGUMENT]).await;
                }
            }
        }
        // leases may have expired meanwhile
        let now = st.seq.now();
        st.seq.m.advance(now);
        let live: Vec<String> = st.seq.m.subs.get(&s1).map(|s| s.leases.keys().cloned().collect()).unwrap_or_default();
        leases1.retain(|i| live.contains(i));
    }

    // Deep check: past every deadline each subscription still redelivers exactly what the model holds.
    let latest = st.seq.m.subs.values().flat_map(|s| s.leases.values()).map(|l| l.hi).max().unwrap_or(0);
    if !mt {
        // (real-time runs cannot wait out the leases; they drain what is available now)
        st.seq.advance_to(latest.max(st.seq.now()) + MS).await;
    }
    let names: Vec<String> = st.seq.m.subs.keys().cloned().collect();
    for s in names {
        let mut guard = 0;
        while st.seq.m.certain_count(&s) > 0 && guard < 30 {
            let got = st.seq.pull(&s, 1000, true).await;
            if got.is_empty() {
                break;
            }
            guard += 1;
        }
    }
    st.seq.check_stats("Rejected").await;
    st.listings("end-of-episode", "").await;
    // A round trip on fresh resources still works.
    let (tf, sf) = (topic_name(3, 1), sub_name(3, 1));
    st.seq.create_topic(&tf).await;
    st.seq.create_sub(&sf, &tf, 10).await;
    st.seq.publish(&tf, 1).await;
    let got = st.seq.pull(&sf, 1, true).await;
    if got.len() != 1 {
        st.rep.viol("C17", "C17:server-not-serving-after", "round trip on a fresh topic/subscription did not deliver");
    } else {
        st.seq.ack(&sf, &[got[0].ack_id.clone()]).await;
    }
    let mut rep = st.rep;
    st.seq.flush(&mut rep);
    // panics anywhere in the process during this episode
    rep.nontrivial = st.answered > 0;
    rep.add("hostile_requests_answered", st.answered);
    rep.extra_keys = st.keys.iter().cloned().collect();
    rep.key = format!("{:?}", st.keys.iter().take(40).collect::<Vec<_>>());
    rep.history = st.seq.history(150);
    w.shutdown();
    rep
}
