//! CONC — concurrent multi-client episodes (DESIGN 3.1 "CONC") for the
//! schedule-quantified data-plane properties C01, C03, C08 (and the pull half
//! of C09): 2-8 simulated clients over few names, bursts larger than a mailbox,
//! seeded yields before every client operation and at the server's schedule
//! points, exact end-of-episode drain. Oracles: the interval checkers of
//! checks/lease.rs and checks/order.rs.

use super::common::*;
use super::Plan;
use crate::checks::{lease, order};
use crate::client::*;
use crate::rec::*;
use crate::report::*;
use crate::rng::Rng;
use crate::world::*;
use std::collections::HashMap;
use std::sync::{Arc, Mutex};
use std::time::Duration;

#[derive(Clone, Copy, PartialEq)]
pub enum Profile {
    C01,
    C03,
    C08,
}

fn profile_of(p: &EpParams) -> Profile {
    match p.get("profile").unwrap_or("c01") {
        "c03" => Profile::C03,
        "c08" => Profile::C08,
        _ => Profile::C01,
    }
}

pub fn plan(p: &EpParams) -> Plan {
    let n = p.get_u64("n").unwrap_or(if p.engine == "mt" {
        if tier_thorough(p) { 3_000 } else { 300 }
    } else if p.engine == "miri" {
        2
    } else if tier_thorough(p) {
        if p.transport == "h2" { 6_000 } else { 50_000 }
    } else {
        3_000
    });
    let rule = match profile_of(p) {
        Profile::C01 => "CONC profile c01: 1-2 topics, 2-3 subscriptions on the main topic (two always present), 2-4 publishers (batches 1-5), 2-4 consumers mixing Pull(1/3/100, blocking or not) and StreamingPull, ack/nack/modify of random subsets (also by other clients), consumers that abandon their pull mid-request, leases left to expire, a second subscription and a second topic created and deleted mid-stream (fresh names), every 4th episode a burst of 20-40 simultaneous publishes; after the clients finish all leases expire (11 virtual minutes) and every live subscription is drained, so loss/duplication accounting is exact. Non-trivial: >=1 obligation (publish, message, subscription) with >=2 subscriptions on the topic and >=1 redelivery. Distinct: per-client operation-kind sequence x outcome classes.",
        Profile::C03 => "CONC profile c03: one subscription, 3-8 competing consumers of mixed kinds (unary pulls with limits 1..100, blocking pulls, streams), publishers, ackers, nackers, modifiers (3 s / 15 s / 30 s), consumers that abandon their pull mid-request, and time advances that let some leases expire while others were extended. Non-trivial: >=2 consumers received from the subscription and >=1 message was delivered >=2 times. Distinct: multiset of (consumer kind, batch limit) x lease-end causes seen.",
        Profile::C08 => "CONC profile c08: 2-6 concurrent publishers with batches 1-8 on one topic with 2-3 subscriptions, each read by 1-3 consumers with small batch limits (no cancelled consumers, so every hand-out is observed), subscription mailboxes saturated by concurrent pulls so that posts have to wait, nacks and expiries interleaved. Non-trivial: >=2 publishes overlapped on the topic. Distinct: (publisher count, batch sizes, consumer count) x overlap pattern.",
    };
    Plan { episodes: n, exhaustive: false, rule: rule.into() }
}

pub fn run(p: &EpParams) -> EpReport {
    let mt = p.engine == "mt";
    let rt = episode_runtime(p.ep_seed, !mt, false, if mt { 4 } else { 1 });
    let p2 = p.clone();
    rt.block_on(async move { episode(&p2, mt).await })
}

/// Leases the harness knows about, so that *other* clients can ack / nack / modify them.
#[derive(Default)]
pub struct Pool {
    pub leases: Mutex<HashMap<String, Vec<String>>>,
}

impl Pool {
    pub fn add(&self, sub: &str, ids: impl Iterator<Item = String>) {
        self.leases.lock().unwrap().entry(sub.to_string()).or_default().extend(ids);
    }
    pub fn take(&self, sub: &str, rng: &mut Rng, n: usize) -> Vec<String> {
        let mut l = self.leases.lock().unwrap();
        let v = l.entry(sub.to_string()).or_default();
        let mut out = Vec::new();
        for _ in 0..n {
            if v.is_empty() {
                break;
            }
            let i = rng.below(v.len() as u64) as usize;
            out.push(v.swap_remove(i));
        }
        out
    }
}

pub async fn jitter(rng: &mut Rng, mt: bool) {
    for _ in 0..rng.below(3) {
        tokio::task::yield_now().await;
    }
    if mt {
        if rng.chance(1, 4) {
            tokio::time::sleep(Duration::from_micros(rng.range(10, 800))).await;
        }
        return;
    }
    match rng.below(12) {
        0..=2 => tokio::time::sleep(Duration::from_millis(rng.range(1, 3000))).await,
        3 => tokio::time::sleep(Duration::from_secs(11)).await,
        _ => {}
    }
}

/// What a consumer does with a delivery it received.
async fn dispose(cx: &Cx, sub: &str, ds: &[Delivery], rng: &mut Rng, pool: &Pool, allow_modify: bool) {
    let mut acks = Vec::new();
    let mut nacks = Vec::new();
    let mut mods = Vec::new();
    let mut keep = Vec::new();
    for d in ds {
        match rng.below(10) {
            0..=4 => acks.push(d.ack_id.clone()),
            5 => nacks.push(d.ack_id.clone()),
            6 if allow_modify => mods.push(d.ack_id.clone()),
            7 => keep.push(d.ack_id.clone()), // someone else may deal with it
            _ => {}                           // left to expire
        }
    }
    pool.add(sub, keep.into_iter());
    if !acks.is_empty() {
        let _ = cx.ack(sub, &acks).await;
    }
    if !nacks.is_empty() {
        let _ = cx.modify(sub, &nacks, 0).await;
    }
    if !mods.is_empty() {
        let secs = *rng.pick(&[3, 15, 30]);
        let _ = cx.modify(sub, &mods, secs).await;
    }
}

async fn publisher(cx: Cx, topic: String, n: u64, mut rng: Rng, max_batch: u64, mt: bool) {
    for i in 0..n {
        jitter(&mut rng, mt).await;
        let k = rng.range(1, max_batch);
        let msgs: Vec<Msg> = (0..k).map(|j| Msg::tagged(&format!("c{}#{}.{}", cx.id, i, j))).collect();
        let _ = cx.publish(&topic, &msgs).await;
    }
}

async fn puller(cx: Cx, sub: String, n: u64, mut rng: Rng, pool: Arc<Pool>, limits: Vec<i32>, blocking_p: u64, mt: bool, allow_modify: bool) {
    for _ in 0..n {
        jitter(&mut rng, mt).await;
        let max = *rng.pick(&limits);
        let blocking = rng.below(10) < blocking_p;
        // a blocking pull may wait up to 5 virtual minutes: fine on the paused clock, bounded in real time
        let r = if blocking && mt {
            match tokio::time::timeout(Duration::from_millis(200), cx.pull(&sub, max, false)).await {
                Ok(r) => r,
                Err(_) => continue,
            }
        } else {
            cx.pull(&sub, max, !blocking).await
        };
        if let Ok(ds) = r {
            dispose(&cx, &sub, &ds, &mut rng, &pool, allow_modify).await;
        }
    }
}

async fn streamer(cx: Cx, sub: String, rounds: u64, mut rng: Rng, pool: Arc<Pool>, mt: bool, allow_modify: bool, limit: i64) {
    let Ok(h) = cx.open_stream(&sub, limit).await else { return };
    let mut handled = 0usize;
    for _ in 0..rounds {
        jitter(&mut rng, mt).await;
        if mt {
            tokio::time::sleep(Duration::from_millis(1)).await;
        } else {
            tokio::time::sleep(Duration::from_millis(rng.range(1, 1500))).await;
        }
        let all = h.deliveries();
        let new = &all[handled.min(all.len())..];
        handled = all.len();
        if new.is_empty() || h.ended().is_some() {
            continue;
        }
        // on the stream: acks and modifications travel as control messages half of the time
        if rng.chance(1, 2) {
            let mut acks = Vec::new();
            let mut mod_ids = Vec::new();
            let mut mod_secs = Vec::new();
            for d in new {
                match rng.below(10) {
                    0..=5 => acks.push(d.ack_id.clone()),
                    6 => {
                        mod_ids.push(d.ack_id.clone());
                        mod_secs.push(0);
                    }
                    7 if allow_modify => {
                        mod_ids.push(d.ack_id.clone());
                        mod_secs.push(*rng.pick(&[3, 15, 30]));
                    }
                    _ => {}
                }
            }
            if !acks.is_empty() || !mod_ids.is_empty() {
                h.send(&acks, &mod_ids, &mod_secs);
            }
        } else {
            dispose(&cx, &sub, new, &mut rng, &pool, allow_modify).await;
        }
    }
    // leave the stream open until the driver has seen a quiescent point: every hand-out is
    // observed before the stream goes away
    tokio::time::sleep(Duration::from_millis(if mt { 5 } else { 50 })).await;
    let mut h = h;
    h.close_request_side();
    tokio::time::sleep(Duration::from_millis(if mt { 5 } else { 50 })).await;
    drop(h);
}

/// A consumer that goes away mid-request: its pull is dropped after a few scheduler turns.
/// Whatever was handed to it is never observed (the lease checker only reasons about
/// observed deliveries) and must come back after its deadline.
async fn abandoner(cx: Cx, sub: String, n: u64, mut rng: Rng, mt: bool) {
    for _ in 0..n {
        jitter(&mut rng, mt).await;
        let c2 = cx.clone();
        let s2 = sub.clone();
        let max = 1 + rng.below(3) as i32;
        let blocking = rng.chance(1, 3);
        let task = tokio::spawn(async move {
            let _ = c2.pull(&s2, max, !blocking).await;
        });
        for _ in 0..rng.below(5) {
            tokio::task::yield_now().await;
        }
        task.abort();
        let _ = task.await;
    }
}

async fn meddler(cx: Cx, sub: String, n: u64, mut rng: Rng, pool: Arc<Pool>, mt: bool, allow_modify: bool) {
    for _ in 0..n {
        jitter(&mut rng, mt).await;
        let k = 1 + rng.below(3) as usize;
        let ids = pool.take(&sub, &mut rng, k);
        if ids.is_empty() {
            continue;
        }
        match rng.below(if allow_modify { 3 } else { 2 }) {
            0 => {
                let _ = cx.ack(&sub, &ids).await;
            }
            1 => {
                let _ = cx.modify(&sub, &ids, 0).await;
            }
            _ => {
                let _ = cx.modify(&sub, &ids, *rng.pick(&[3, 15, 30])).await;
            }
        }
    }
}

async fn episode(p: &EpParams, mt: bool) -> EpReport {
    let mut rep = EpReport::default();
    let prof = profile_of(p);
    let mut rng = Rng::new(p.ep_seed);
    let w = World::new(transport_of(p), !mt, Some(rng.below(100))).await;
    let c0 = Cx::new(&w, 0);
    let pool = Arc::new(Pool::default());
    let ta = topic_name(1, 1);
    let tb = topic_name(1, 2);
    c0.create_topic(&ta).await.ok();
    let n_subs = match prof {
        Profile::C03 => 1,
        _ => rng.range(2, 3),
    } as u32;
    let mut subs: Vec<String> = Vec::new();
    for i in 1..=n_subs {
        let s = sub_name(1, i);
        let dl = *rng.pick(&[10, 10, 12, 20]);
        c0.create_sub(&s, &ta, dl).await.ok();
        subs.push(s);
    }
    let two_topics = prof == Profile::C01 && rng.chance(1, 2);
    let sb = sub_name(1, 20);
    if two_topics {
        c0.create_topic(&tb).await.ok();
        c0.create_sub(&sb, &tb, 10).await.ok();
    }
    let full0 = super::c07::hook_count("sub.mailbox_full") + super::c07::hook_count("topic.mailbox_full");

    let mut tasks: Vec<tokio::task::JoinHandle<()>> = Vec::new();
    let mut next_client = 1u32;
    let mut mk = |w: &Arc<World>| {
        next_client += 1;
        Cx::new(w, next_client)
    };
    let allow_modify = true;
    let mut shape: Vec<String> = Vec::new();
    // publishers
    let n_pub = match prof {
        Profile::C08 => rng.range(2, 6),
        Profile::C03 => rng.range(1, 3),
        Profile::C01 => rng.range(2, 4),
    };
    let max_batch = if prof == Profile::C08 { 8 } else { 5 };
    for _ in 0..n_pub {
        let n = rng.range(2, 6);
        tasks.push(tokio::spawn(publisher(mk(&w), ta.clone(), n, rng.fork(1), max_batch, mt)));
        shape.push(format!("pub{}", n));
    }
    let big = match prof {
        Profile::C08 => rng.chance(1, 6),
        Profile::C03 => rng.chance(1, 8),
        Profile::C01 => rng.chance(1, 8),
    };
    if big {
        // one request far larger than any internal batching threshold races the other publishers:
        // its messages must stay contiguous and in request order as well
        let cx = mk(&w);
        let t = ta.clone();
        let n = rng.range(1001, 2600);
        let mut r = rng.fork(9);
        tasks.push(tokio::spawn(async move {
            jitter(&mut r, mt).await;
            let msgs: Vec<Msg> = (0..n).map(|j| Msg::tagged(&format!("c{}#big.{}", cx.id, j))).collect();
            let _ = cx.publish(&t, &msgs).await;
        }));
        shape.push("pubbig".into());
    }
    if two_topics {
        tasks.push(tokio::spawn(publisher(mk(&w), tb.clone(), rng.range(2, 5), rng.fork(2), 3, mt)));
        tasks.push(tokio::spawn(puller(mk(&w), sb.clone(), rng.range(3, 8), rng.fork(3), Arc::clone(&pool), vec![1, 3, 100], 2, mt, allow_modify)));
    }
    // bursts: more simultaneous posts / pulls than a mailbox holds
    let burst = match prof {
        Profile::C01 => p.get_u64("index").unwrap_or(0) % 4 == 3,
        Profile::C08 => rng.chance(1, 2),
        Profile::C03 => rng.chance(1, 4),
    };
    if burst {
        // waves: 20-40 simultaneous pulls on one subscription (more than its 16-slot mailbox holds)
        // together with several simultaneous publishes, so that posts have to wait for room
        let waves = if prof == Profile::C08 { rng.range(1, 3) } else { 1 };
        let mut total = 0;
        for wv in 0..waves {
            let k = rng.range(20, 40);
            let n_pubs = if prof == Profile::C08 { rng.range(2, 6) } else { k / 2 };
            total += k;
            let delay = rng.below(3) * 7;
            let target = subs[rng.below(subs.len() as u64) as usize].clone();
            for i in 0..k {
                let cx = mk(&w);
                let mut r = rng.fork(1000 * (wv + 1) + i);
                let s = if r.chance(4, 5) { target.clone() } else { subs[(i as usize) % subs.len()].clone() };
                let pl = Arc::clone(&pool);
                tasks.push(tokio::spawn(async move {
                    if delay > 0 && !mt {
                        tokio::time::sleep(Duration::from_millis(delay)).await;
                    }
                    for _ in 0..r.below(3) {
                        tokio::task::yield_now().await;
                    }
                    if let Ok(ds) = cx.pull(&s, 1 + r.below(2) as i32, true).await {
                        pl.add(&s, ds.iter().map(|d| d.ack_id.clone()));
                    }
                }));
            }
            for i in 0..n_pubs {
                let cx = mk(&w);
                let t = ta.clone();
                let mut r = rng.fork(5000 * (wv + 1) + i);
                tasks.push(tokio::spawn(async move {
                    if delay > 0 && !mt {
                        tokio::time::sleep(Duration::from_millis(delay)).await;
                    }
                    for _ in 0..r.below(4) {
                        tokio::task::yield_now().await;
                    }
                    let n = 1 + r.below(2);
                    let msgs: Vec<Msg> = (0..n).map(|j| Msg::tagged(&format!("b{}#{}.{}", cx.id, wv, j))).collect();
                    let _ = cx.publish(&t, &msgs).await;
                }));
            }
        }
        shape.push(format!("burst{}x{}", waves, total));
    }
    // consumers
    if big {
        // beside a publish of more than 1000 messages: a StreamingPull that may hold 5000 at once
        // (one pull can then return more than one response's worth)
        let s = subs[rng.below(subs.len() as u64) as usize].clone();
        tasks.push(tokio::spawn(streamer(mk(&w), s, rng.range(3, 10), rng.fork(14), Arc::clone(&pool), mt, allow_modify, 5000)));
        shape.push("stream5000".into());
    }
    for s in subs.iter() {
        let n_cons = match prof {
            Profile::C03 => rng.range(3, 8),
            Profile::C08 => rng.range(1, 3),
            Profile::C01 => rng.range(1, 3),
        };
        for _ in 0..n_cons {
            let limits: Vec<i32> = match prof {
                Profile::C08 => vec![1, 2, 3],
                _ => vec![1, 3, 100],
            };
            match rng.below(3) {
                0 => {
                    let lim = *rng.pick(&[0i64, 1, 2, 5]);
                    tasks.push(tokio::spawn(streamer(mk(&w), s.clone(), rng.range(3, 10), rng.fork(4), Arc::clone(&pool), mt, allow_modify, lim)));
                    shape.push(format!("stream{}", lim));
                }
                k => {
                    let blocking_p = if k == 1 { 0 } else { 5 };
                    let n = rng.range(3, 10);
                    tasks.push(tokio::spawn(puller(mk(&w), s.clone(), n, rng.fork(5), Arc::clone(&pool), limits.clone(), blocking_p, mt, allow_modify)));
                    shape.push(format!("pull{}b{}", n, blocking_p));
                }
            }
        }
        if prof != Profile::C08 && rng.chance(1, 2) {
            tasks.push(tokio::spawn(abandoner(mk(&w), s.clone(), rng.range(1, 5), rng.fork(10), mt)));
            shape.push("abandon".into());
        }
        if prof != Profile::C08 || rng.chance(1, 2) {
            tasks.push(tokio::spawn(meddler(mk(&w), s.clone(), rng.range(2, 8), rng.fork(6), Arc::clone(&pool), mt, allow_modify)));
        }
    }
    // C08: now and then payloads of a megabyte each, published two per request, and a unary Pull
    // whose batch of five is bigger than any sensible response size: first deliveries keep their order
    if prof == Profile::C08 && rng.chance(1, 20) {
        let cx = mk(&w);
        let reader = mk(&w);
        let (t, s) = (ta.clone(), subs[0].clone());
        let pl = Arc::clone(&pool);
        tasks.push(tokio::spawn(async move {
            for r in 0..3 {
                let msgs: Vec<Msg> = (0..2)
                    .map(|j| {
                        let tag = format!("c{}#mb{}.{}", cx.id, r, j);
                        let mut m = Msg::tagged(&tag);
                        m.data = format!("T:{}|", tag).into_bytes();
                        m.data.extend(std::iter::repeat(b'z').take(1 << 20));
                        m
                    })
                    .collect();
                let _ = cx.publish(&t, &msgs).await;
            }
            for _ in 0..4 {
                if let Ok(ds) = reader.pull(&s, 5, true).await {
                    pl.add(&s, ds.iter().map(|d| d.ack_id.clone()));
                }
            }
        }));
        shape.push("megabytes".into());
    }
    // C08: a subscription created and deleted at the same moment, while the publishers are busy
    // (a publish that meets the half-attached, already deleted subscription fails after the
    // healthy subscriptions got its messages: the ids it consumed must not come back)
    if prof == Profile::C08 && rng.chance(1, 2) {
        let cx = mk(&w);
        let ta2 = ta.clone();
        let mut r = rng.fork(11);
        tasks.push(tokio::spawn(async move {
            for round in 0..r.range(2, 6) {
                jitter(&mut r, mt).await;
                let s = sub_name(1, 200 + round as u32);
                let (c2, s2, t2) = (cx.clone(), s.clone(), ta2.clone());
                let create = tokio::spawn(async move {
                    let _ = c2.create_sub(&s2, &t2, 10).await;
                });
                for _ in 0..r.below(4) {
                    tokio::task::yield_now().await;
                }
                let _ = cx.delete_sub(&s).await;
                let _ = create.await;
                let _ = cx.delete_sub(&s).await;
            }
        }));
        shape.push("create||delete".into());
    }
    // C01: a second subscription and a second topic come and go mid-stream (fresh names)
    if prof == Profile::C01 {
        let cx = mk(&w);
        let (ta2, pl) = (ta.clone(), Arc::clone(&pool));
        let mut r = rng.fork(7);
        let w2 = Arc::clone(&w);
        tasks.push(tokio::spawn(async move {
            for round in 0..r.range(1, 3) {
                jitter(&mut r, mt).await;
                let s = sub_name(1, 100 + round as u32);
                if cx.create_sub(&s, &ta2, 10).await.is_ok() {
                    let reader = Cx::new(&w2, 300 + round as u32);
                    let n = r.range(1, 4);
                    for _ in 0..n {
                        jitter(&mut r, mt).await;
                        if let Ok(ds) = reader.pull(&s, 3, true).await {
                            dispose(&reader, &s, &ds, &mut r, &pl, true).await;
                        }
                    }
                    if r.chance(2, 3) {
                        let _ = cx.delete_sub(&s).await;
                    }
                }
            }
        }));
        if two_topics && rng.chance(1, 2) {
            let cx = mk(&w);
            let tb2 = tb.clone();
            let mut r = rng.fork(8);
            tasks.push(tokio::spawn(async move {
                jitter(&mut r, mt).await;
                jitter(&mut r, mt).await;
                let _ = cx.delete_topic(&tb2).await;
            }));
        }
        shape.push("churn".into());
    }

    // C08: the second topic is deleted while its publisher is still at work (a publish that was
    // on its way in when the deletion was carried out is either refused or numbered like any other)
    if prof == Profile::C08 && rng.chance(1, 3) {
        let cx = mk(&w);
        // (a topic of its own, with a subscription and a few publishes that have returned already)
        let tb = topic_name(1, 7);
        let _ = cx.create_topic(&tb).await;
        let _ = cx.create_sub(&sub_name(1, 70), &tb, 10).await;
        for j in 0..rng.range(1, 4) {
            let _ = cx.publish(&tb, &[Msg::tagged(&format!("c{}#pre{}", cx.id, j))]).await;
        }
        let tb2 = tb.clone();
        let mut r = rng.fork(18);
        tasks.push(tokio::spawn(async move {
            for _ in 0..r.range(1, 4) {
                jitter(&mut r, mt).await;
            }
            let _ = cx.delete_topic(&tb2).await;
        }));
        // ... and a burst of single publishes to it from other clients around that moment
        for i in 0..rng.range(3, 12) {
            let (c, t2) = (mk(&w), tb.clone());
            let mut r = rng.fork(180 + i);
            tasks.push(tokio::spawn(async move {
                for _ in 0..r.range(1, 4) {
                    jitter(&mut r, mt).await;
                }
                let _ = c.publish(&t2, &[Msg::tagged(&format!("c{}#late", c.id))]).await;
            }));
        }
        shape.push("deltopic-under-publishers".into());
    }

    // ---- wait for the clients ----------------------------------------------------------------------
    let all = async {
        for t in tasks.iter_mut() {
            let _ = t.await;
        }
    };
    let limit = if mt { Duration::from_secs(60) } else { Duration::from_secs(6 * 3600) };
    if tokio::time::timeout(limit, all).await.is_err() {
        for t in &tasks {
            t.abort();
        }
        if mt {
            rep.inconclusive("mt-watchdog: clients did not finish within 60 s of wall time");
        } else {
            rep.viol("C07", "C07:Q-term:clients-never-finished", "simulated clients were still waiting for replies after six virtual hours");
        }
        rep.history = w.history().abstract_lines(300);
        w.shutdown();
        return rep;
    }
    let full1 = super::c07::hook_count("sub.mailbox_full") + super::c07::hook_count("topic.mailbox_full");
    rep.add("mailbox_full_observations", full1 - full0);

    // ---- drain: every lease expires, every live subscription is emptied -----------------------------------
    w.settle().await;
    if mt {
        // no virtual time: nack whatever the harness still knows, then pull until empty for a while
    } else {
        w.advance(Duration::from_secs(11 * 60)).await;
        w.settle().await;
    }
    let drain = Cx::new(&w, lease::DRAIN_CLIENT);
    let mut drained = true;
    let live: Vec<String> = match drain.list_subs("projects/p1", 1000, "").await {
        Ok((v, _)) => v.into_iter().map(|s| s.name).collect(),
        Err(_) => {
            drained = false;
            vec![]
        }
    };
    if mt {
        drained = false; // leases cannot be waited out in real time: loss accounting is not exact here
    }
    for s in &live {
        let mut guard = 0;
        loop {
            guard += 1;
            match drain.pull(s, 1000, true).await {
                Ok(ds) if !ds.is_empty() => {
                    let ids: Vec<String> = ds.iter().map(|d| d.ack_id.clone()).collect();
                    let _ = drain.ack(s, &ids).await;
                }
                _ => break,
            }
            if guard > 50 {
                break;
            }
        }
        if !mt {
            if let Some(st) = w.stats(s).await {
                if st.backlog != 0 || st.outstanding != 0 {
                    rep.viol("C01", "C01:drain-not-empty", format!("{} reports outstanding={} backlog={} after it was drained past every deadline", short(s), st.outstanding, st.backlog));
                }
            }
        }
    }

    // ---- oracles ------------------------------------------------------------------------------------------
    let h = w.history();
    let ls = if mt { lease_mt(&h, &mut rep) } else { lease::check(&h, &mut rep, drained) };
    let ids = order::check_identity(&h, &mut rep);
    let mut overlapping = 0;
    if prof == Profile::C08 {
        let os = order::check_order(&h, &mut rep);
        overlapping = os.overlapping_publish_pairs;
        rep.add("overlapping_publish_pairs", os.overlapping_publish_pairs);
        rep.add("first_deliveries", os.first_deliveries);
        rep.add("ordered_pairs_checked", os.ordered_pairs_checked);
    }
    for o in h.ops.values() {
        if let Some((_, _, Out::Panic(m))) = &o.ret {
            rep.viol("C17", "C17:panic-in-handler", m.clone());
        }
        if let (Op::Publish { .. }, Some((_, _, Out::Status(..)))) = (&o.op, &o.ret) {
            rep.inc("publishes_answered_with_an_error");
        }
    }
    rep.add("deliveries", ls.deliveries);
    rep.add("redeliveries", ls.redeliveries);
    rep.add("obligations", ls.obligations);
    rep.add("certainly_effective_acks", ls.certain_acks);
    rep.add("ambiguous_skipped", ls.ambiguous_skipped);
    rep.add("subscriptions_with_2plus_consumers", ls.multi_consumer_subs);
    rep.add("identity_deliveries_checked", ids.deliveries_checked);
    rep.add("tags_delivered_3_times", ids.tags_delivered_3_times);
    rep.nontrivial = match prof {
        Profile::C01 => ls.obligations > 0 && ls.redeliveries > 0,
        Profile::C03 => ls.multi_consumer_subs > 0 && ls.redeliveries > 0,
        Profile::C08 => overlapping > 0,
    };
    // distinctness: per-client op-kind sequences x outcome classes
    let mut per_client: std::collections::BTreeMap<u32, String> = Default::default();
    for o in h.ops.values() {
        let c = o.ret.as_ref().map(|r| r.2.class()).unwrap_or_else(|| "open".into());
        per_client.entry(o.client).or_default().push_str(&format!("{}:{};", o.op.kind(), c));
    }
    let mut seqs: Vec<String> = per_client.into_values().collect();
    seqs.sort();
    rep.key = format!("{:?}|{}", shape, crate::rng::fnv_str(&seqs.join("|")));
    rep.history = h.abstract_lines(if rep.violations.is_empty() { 80 } else { 600 });
    w.shutdown();
    rep
}

/// Multi-thread runs: only the timing-independent rules (X1, X2, S1, identity).
fn lease_mt(h: &History, rep: &mut EpReport) -> lease::LeaseStats {
    let mut tmp = EpReport::default();
    let st = lease::check(h, &mut tmp, false);
    for v in tmp.violations {
        if v.sig.contains(":X1:") || v.sig.contains(":X2:") || v.sig.contains(":S1:") {
            rep.viol(&v.property, v.sig, v.detail);
        }
    }
    st
}
