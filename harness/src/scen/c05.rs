//! C05 — ModifyAckDeadline replaces the deadline; zero means nack; negative
//! seconds or a malformed ack ID reject the whole request.

use super::c02::{apply, epilogue, Ctx};
use super::common::*;
use super::Plan;
use crate::client::*;
use crate::model::*;
use crate::rec::*;
use crate::report::*;
use crate::rng::Rng;
use crate::seq::Seq;
use crate::world::*;
use std::time::Duration;

const NS: [i32; 15] = [1, 9, 10, 11, 30, 599, 600, 601, 65_535, 65_536, 65_541, 66_135, 100_000, 131_079, i32::MAX];
const WHEN: [&str; 3] = ["at-handout", "mid", "1ms-before-expiry"];
const VIA: [&str; 2] = ["unary", "stream"];
const BAD_IDS: [&str; 8] = ["", "abc", " 1", "1a", "99999999999999999999999999", "１", "-1", "1.0"];
const NEG: [i32; 3] = [i32::MIN, -600, -1];

fn n_grid_a() -> u64 {
    (NS.len() * WHEN.len() * VIA.len()) as u64
}
// nack: {unary, stream} x {probe, parked consumer}
fn n_grid_b() -> u64 {
    4
}
// rejections: negative N x via x {nack-like would-be effect: n/a}, bad id x position(3) x seconds {0, 30} x via
fn n_grid_c() -> u64 {
    (NEG.len() * 2 * 2 + BAD_IDS.len() * 3 * 2 * 2 + 4 + 4) as u64
}

// mixed batches: dead IDs in front of live ones, duplicates, same-deadline modification
fn n_grid_d() -> u64 {
    24
}

fn grid(_p: &EpParams) -> u64 {
    n_grid_a() + n_grid_b() + n_grid_c() + n_grid_d()
}

fn reps(p: &EpParams) -> u64 {
    if p.engine == "miri" { 1 } else if tier_thorough(p) { 40 } else { 6 }
}

fn n_random(p: &EpParams) -> u64 {
    if p.engine == "miri" { 2 } else if tier_thorough(p) { 30_000 } else { 2_500 }
}

pub fn plan(p: &EpParams) -> Plan {
    Plan {
        episodes: grid(p) * reps(p) + n_random(p),
        exhaustive: true,
        rule: format!(
            "grid (each cell at {} seeded grid phases): N in {:?} x modification instant {:?} x {:?} probed 1 ms before and just after the new deadline (and at the old one); N=0 by probe and with a parked consumer; rejections: N in {:?}, malformed ack IDs {:?} at every position of a 3-element batch with seconds 0 and 30, unary and inside a StreamingPull control message, each followed by probes showing that nothing was applied; unknown and stale IDs. Plus {} random SEQ histories mixing modifications (30 s / 3 s / 700 s, oldest / newest lease) with pulls, acks, nacks and time advances. Non-trivial: >=1 modify on an outstanding lease probed on both sides of old and new deadline, or a rejected mixed batch. Distinct: (N, instant, via) / (bad id, position, seconds, via) / abstract sequence.",
            reps(p), NS, WHEN, VIA, NEG, BAD_IDS, n_random(p)
        ),
    }
}

pub fn run(p: &EpParams) -> EpReport {
    let rt = episode_runtime(p.ep_seed, true, false, 1);
    let p2 = p.clone();
    rt.block_on(async move { episode(&p2).await })
}

async fn episode(p: &EpParams) -> EpReport {
    let idx = p.get_u64("index").unwrap_or(0);
    let g = grid(p);
    if idx >= g * reps(p) {
        return random_episode(p).await;
    }
    let case = idx % g;
    if case < n_grid_a() {
        grid_a(p, case).await
    } else if case < n_grid_a() + n_grid_b() {
        grid_b(p, case - n_grid_a()).await
    } else if case < n_grid_a() + n_grid_b() + n_grid_c() {
        grid_c(p, case - n_grid_a() - n_grid_b()).await
    } else {
        grid_d(p, case - n_grid_a() - n_grid_b() - n_grid_c()).await
    }
}

struct Setup {
    w: std::sync::Arc<World>,
    seq: Seq,
    t: String,
    s: String,
    ids: Vec<String>,
    h: Vt,
    a: u64,
}

/// Topic, one subscription (10 s), two messages handed out at instant h either to
/// a unary pull or to an open stream.
async fn setup(p: &EpParams, stream: bool) -> Setup {
    let mut rng = Rng::new(p.ep_seed);
    let w = World::new(transport_of(p), true, Some(rng.below(100))).await;
    let mut seq = Seq::new(&w);
    let (t, s) = (topic_name(1, 1), sub_name(1, 1));
    seq.create_topic(&t).await;
    seq.create_sub(&s, &t, 10).await;
    if stream {
        seq.open_stream(&s, 0).await;
    }
    seq.publish(&t, 2).await;
    let ids: Vec<String>;
    if stream {
        ids = seq.streams[&s].deliveries().iter().map(|d| d.ack_id.clone()).collect();
    } else {
        ids = seq.pull(&s, 10, true).await.iter().map(|d| d.ack_id.clone()).collect();
    }
    let h = seq.m.subs[&s].leases.values().map(|l| l.handed).min().unwrap_or(0);
    Setup { w, seq, t, s, ids, h, a: 10 * SEC }
}

/// Sends a modification through the chosen path and tells the model when it was OK.
async fn do_modify(su: &mut Setup, via: &str, ids: &[String], secs: &[i32]) -> i32 {
    if via == "unary" {
        // the unary RPC carries one value for all IDs
        su.seq.modify(&su.s.clone(), ids, secs[0]).await
    } else {
        let now = su.seq.now();
        let h = &su.seq.streams[&su.s];
        h.send(&[], ids, secs);
        su.seq.steps.push(format!("stream_modify({:?},{:?})@{}ms", ids, secs, now / MS));
        su.w.settle().await;
        let ended = su.seq.streams[&su.s].ended();
        match ended {
            None => {
                for (i, id) in ids.iter().enumerate() {
                    su.seq.m.modified(&su.s, &[id.clone()], secs[i], now);
                }
                su.seq.after_step(if secs.iter().all(|s| *s == 0) { "Nack" } else { "Modify" }).await;
                0
            }
            Some(code) => {
                su.seq.steps.push(format!("stream ended code={}", code));
                su.seq.after_step("Rejected").await;
                code
            }
        }
    }
}

async fn grid_a(p: &EpParams, case: u64) -> EpReport {
    let mut rep = EpReport::default();
    let via = VIA[(case % 2) as usize];
    let when = WHEN[((case / 2) % 3) as usize];
    let n = NS[(case / 6) as usize];
    let mut su = setup(p, via == "stream").await;
    if su.ids.len() != 2 {
        rep.inconclusive("setup did not hand out two messages");
        return rep;
    }
    let old_d = su.h + su.a;
    match when {
        "mid" => su.seq.advance_to(su.h + 5 * SEC).await,
        "1ms-before-expiry" => su.seq.advance_to(old_d - MS).await,
        _ => {}
    }
    let t_m = su.seq.now();
    let id1 = su.ids[0].clone();
    let c = do_modify(&mut su, via, &[id1.clone()], &[n]).await;
    if c != 0 {
        rep.viol("C05", format!("C05:modify-rejected:N={}", n), format!("modify({}) via {} answered {}", n, via, c));
    }
    let new_d = t_m + (n as u64).min(600) * SEC;
    // Walk the three interesting instants in time order.
    let mut points: Vec<(Vt, &str)> = vec![(new_d.saturating_sub(MS), "new-1ms"), (new_d + SLACK_SPEC + MS, "new+slack"), (old_d + SLACK_SPEC + MS, "old+slack")];
    if old_d > t_m + MS {
        points.push((old_d - MS, "old-1ms"));
    }
    points.sort();
    for (t, label) in points {
        if t <= su.seq.now() {
            continue;
        }
        su.seq.advance_to(t).await;
        if via == "stream" {
            su.seq.check_streams_drained(&mut rep);
        } else {
            let got = su.seq.pull(&su.s.clone(), 10, true).await;
            rep.add(&format!("probe.{}.returned", label), got.len() as u64);
            // keep the second message out of the way once it came back
            let other: Vec<String> = got.iter().filter(|d| su.seq.m.subs[&su.s].leases.get(&d.ack_id).map(|l| l.tag != "m1").unwrap_or(false)).map(|d| d.ack_id.clone()).collect();
            if !other.is_empty() {
                su.seq.ack(&su.s.clone(), &other).await;
            }
        }
    }
    // the modified message must have come back exactly once by now (stream: observed by the model)
    su.seq.flush(&mut rep);
    let delivered = su.seq.m.subs[&su.s].delivered.get("m1").copied().unwrap_or(0);
    if delivered < 2 {
        rep.viol("C05", format!("C05:not-redelivered-after-new-deadline:N={}", n.min(601)), format!("m1 was not redelivered by new deadline + slack (N={}, modified {} via {})", n, when, via));
    }
    rep.nontrivial = c == 0;
    rep.obs("new_deadline_s", ((new_d - t_m) / SEC) as i64);
    rep.key = format!("A N={} when={} via={}", n, when, via);
    rep.history = su.seq.history(80);
    su.w.shutdown();
    rep
}

async fn grid_b(p: &EpParams, case: u64) -> EpReport {
    let mut rep = EpReport::default();
    let via = VIA[(case % 2) as usize];
    let parked = case / 2 == 1;
    let mut su = setup(p, via == "stream").await;
    if su.ids.len() != 2 {
        rep.inconclusive("setup did not hand out two messages");
        return rep;
    }
    su.seq.advance_to(su.h + 2 * SEC).await;
    let id1 = su.ids[0].clone();
    if parked && via == "unary" {
        // a consumer is parked on the (empty) subscription; the nack must wake it at once
        let cx = Cx::new(&su.w, 7);
        let s2 = su.s.clone();
        let t_call = su.seq.now();
        let task = tokio::spawn(async move { cx.pull_op(&s2, 5, false).await });
        su.w.settle().await;
        if task.is_finished() {
            rep.inconclusive("consumer did not park");
        }
        let t_nack = su.seq.now();
        let r = su.seq.cx.modify(&su.s, &[id1.clone()], 0).await;
        su.seq.steps.push(format!("modify({:?},0) with a parked consumer = {:?}", id1, r.as_ref().err().map(|e| e.code())));
        su.seq.m.modified(&su.s, &[id1.clone()], 0, t_nack);
        su.w.settle().await;
        if !task.is_finished() {
            rep.viol("C05", "C05:nack-did-not-wake-consumer", "a consumer parked on the subscription was not woken by ModifyAckDeadline(0)");
            rep.viol("C06", "C06:Q-wake:nack", "a consumer parked on the subscription was not woken by ModifyAckDeadline(0)");
            task.abort();
        } else if let Ok((_, Ok(ds))) = task.await {
            let now = su.seq.now();
            let items: Vec<(String, String, String)> = ds.iter().map(|d| (d.ack_id.clone(), d.tag.clone(), d.msg_id.clone())).collect();
            su.seq.m.pulled(&su.s, &items, 5, true, t_call.max(t_nack), now, Via::Pull);
            rep.inc("parked_consumer_woken_by_nack");
        }
        su.seq.after_step("Nack").await;
    } else {
        let c = do_modify(&mut su, via, &[id1.clone()], &[0]).await;
        if c != 0 {
            rep.viol("C05", "C05:modify-rejected:N=0", format!("modify(0) via {} answered {}", via, c));
        }
        if via == "unary" {
            let got = su.seq.pull(&su.s.clone(), 10, true).await; // model: must return m1 now
            if got.iter().any(|d| d.ack_id == id1) {
                rep.viol("C05", "C05:nack-reused-ack-id", "redelivery after nack carries the old ack id");
            }
        } else {
            su.seq.check_streams_drained(&mut rep);
            let n = su.seq.m.subs[&su.s].delivered.get("m1").copied().unwrap_or(0);
            if n < 2 {
                rep.viol("C05", "C05:nack-not-available", "a nacked message was not redelivered to the open stream at once");
            }
        }
    }
    su.seq.flush(&mut rep);
    rep.nontrivial = true;
    rep.key = format!("B via={} parked={}", via, parked);
    rep.history = su.seq.history(80);
    su.w.shutdown();
    rep
}

async fn grid_c(p: &EpParams, case: u64) -> EpReport {
    let mut rep = EpReport::default();
    let n_neg = (NEG.len() * 2 * 2) as u64;
    let n_bad = (BAD_IDS.len() * 3 * 2 * 2) as u64;
    let via;
    let ids: Vec<String>;
    let secs: Vec<i32>;
    let label;
    let expect_reject;
    let mut su;
    if case < n_neg {
        via = VIA[(case % 2) as usize];
        let mixed = (case / 2) % 2 == 1;
        let neg = NEG[(case / 4) as usize];
        su = setup(p, via == "stream").await;
        if su.ids.len() != 2 {
            rep.inconclusive("setup did not hand out two messages");
            return rep;
        }
        if via == "stream" && mixed {
            // per-ID seconds: a valid extension next to a negative value
            ids = vec![su.ids[0].clone(), su.ids[1].clone()];
            secs = vec![0, neg];
        } else {
            ids = vec![su.ids[0].clone(), su.ids[1].clone()];
            secs = vec![neg, neg];
        }
        label = format!("neg N={} mixed={} via={}", neg, mixed, via);
        expect_reject = true;
    } else if case < n_neg + n_bad {
        let k = case - n_neg;
        via = VIA[(k % 2) as usize];
        let sec = if (k / 2) % 2 == 0 { 0 } else { 30 };
        let pos = ((k / 4) % 3) as usize;
        let bad = BAD_IDS[(k / 12) as usize];
        su = setup(p, via == "stream").await;
        if su.ids.len() != 2 {
            rep.inconclusive("setup did not hand out two messages");
            return rep;
        }
        let mut v = vec![su.ids[0].clone(), su.ids[1].clone()];
        v.insert(pos, bad.to_string());
        ids = v;
        secs = vec![sec; 3];
        label = format!("bad-id {:?} pos={} secs={} via={}", bad, pos, sec, via);
        expect_reject = true;
    } else if case < n_neg + n_bad + 4 {
        // a long batch (well over a thousand IDs) whose only malformed element comes last
        let k = case - n_neg - n_bad;
        via = VIA[(k % 2) as usize];
        let sec = if (k / 2) % 2 == 0 { 0 } else { 30 };
        su = setup(p, via == "stream").await;
        if su.ids.len() != 2 {
            rep.inconclusive("setup did not hand out two messages");
            return rep;
        }
        let mut v = vec![su.ids[0].clone(), su.ids[1].clone()];
        v.extend((0..1300).map(|i| format!("{}", 700_000 + i)));
        v.push("not-an-ack-id".to_string());
        secs = vec![sec; v.len()];
        ids = v;
        label = format!("bad-id last of 1303 secs={} via={}", sec, via);
        expect_reject = true;
    } else {
        // unknown and stale IDs are ignored
        let k = case - n_neg - n_bad - 4;
        via = VIA[(k % 2) as usize];
        su = setup(p, via == "stream").await;
        if su.ids.len() != 2 {
            rep.inconclusive("setup did not hand out two messages");
            return rep;
        }
        if k / 2 == 0 {
            ids = vec!["424242".into(), "0".into(), "18446744073709551615".into()];
            secs = vec![30, 0, 600];
        } else {
            // stale: let both leases expire and be re-leased, then modify the old IDs
            let d = su.h + su.a + SLACK_SPEC + MS;
            su.seq.advance_to(d).await;
            if via == "unary" {
                su.seq.pull(&su.s.clone(), 10, true).await;
            }
            ids = vec![su.ids[0].clone(), su.ids[1].clone()];
            secs = vec![0, 0];
        }
        label = format!("ignored-ids case={} via={}", k / 2, via);
        expect_reject = false;
    }
    su.seq.advance_to(su.seq.now() + SEC).await;
    let secs_for_call = if via == "unary" { vec![secs[0]; ids.len()] } else { secs.clone() };
    // the unary RPC has a single seconds value: take the first (all equal in those cases)
    let t_req = su.seq.now();
    let c = if via == "unary" && expect_reject {
        // Seq::modify predicts INVALID_ARGUMENT from its own parse rule; ask the service directly
        let r = su.seq.cx.modify(&su.s, &ids, secs_for_call[0]).await;
        su.seq.steps.push(format!("modify({:?},{})@{}ms -> {:?}", ids, secs_for_call[0], t_req / MS, r.as_ref().err().map(|e| e.code() as i32)));
        let c = r.err().map(|e| e.code() as i32).unwrap_or(0);
        su.seq.after_step("Rejected").await;
        c
    } else {
        do_modify(&mut su, via, &ids, &secs_for_call).await
    };
    if expect_reject {
        if c != INVALID_ARGUMENT {
            rep.viol("C05", format!("C05:not-rejected:{}", label.split(' ').next().unwrap_or("")), format!("{}: answered {} instead of INVALID_ARGUMENT", label, c));
        }
        // Nothing of the request may have been applied: both leases keep their original deadline.
        // (If the answer was OK the model has applied the valid parts and the probes below follow it.)
        su.seq.flush(&mut rep);
        let before = rep.violations.len();
        let old_d = su.h + su.a;
        if via == "unary" {
            let got = su.seq.pull(&su.s.clone(), 10, true).await; // nothing may be available now
            if !got.is_empty() && c == INVALID_ARGUMENT {
                rep.viol("C05", "C05:rejected-request-applied", format!("{}: {} message(s) became available after the rejected request", label, got.len()));
            }
            su.seq.advance_to(old_d - MS).await;
            su.seq.pull(&su.s.clone(), 10, true).await;
            su.seq.advance_to(old_d + SLACK_SPEC + MS).await;
            let got = su.seq.pull(&su.s.clone(), 10, true).await;
            if got.len() != 2 && c == INVALID_ARGUMENT {
                rep.viol("C05", "C05:rejected-request-applied", format!("{}: {} of 2 messages came back at their original deadline", label, got.len()));
            }
        } else {
            // the stream was terminated by the rejection; a fresh unary consumer observes the leases
            su.seq.streams.remove(&su.s);
            su.seq.advance_to(old_d - MS).await;
            let got = su.seq.pull(&su.s.clone(), 10, true).await;
            if !got.is_empty() && c == INVALID_ARGUMENT {
                rep.viol("C05", "C05:rejected-request-applied", format!("{}: {} message(s) available before the original deadline after the rejected control message", label, got.len()));
            }
            su.seq.advance_to(old_d + SLACK_SPEC + MS).await;
            let got2 = su.seq.pull(&su.s.clone(), 10, true).await;
            if got.len() + got2.len() != 2 && c == INVALID_ARGUMENT {
                rep.viol("C05", "C05:rejected-request-applied", format!("{}: {} of 2 messages came back at their original deadline", label, got.len() + got2.len()));
            }
        }
        su.seq.flush(&mut rep);
        // whatever the model saw go wrong after a rejection is the rejection's doing
        if c == INVALID_ARGUMENT && rep.violations.len() > before {
            let details: Vec<String> = rep.violations[before..].iter().map(|v| format!("{} ({})", v.sig, v.detail)).collect();
            rep.viol("C05", "C05:rejected-request-applied", format!("{}: {}", label, details.join("; ")));
        }
    } else {
        if c != 0 {
            rep.viol("C05", "C05:unknown-ids-rejected", format!("{}: answered {}", label, c));
        }
        // no effect: the model ignored them; the stats comparison of after_step and these probes decide
        let latest = su.seq.m.subs[&su.s].leases.values().map(|l| l.hi).max().unwrap_or(su.seq.now());
        let earliest = su.seq.m.subs[&su.s].leases.values().map(|l| l.lo).min().unwrap_or(su.seq.now());
        if via == "unary" {
            su.seq.pull(&su.s.clone(), 10, true).await;
            if earliest > su.seq.now() + MS {
                su.seq.advance_to(earliest - MS).await;
                su.seq.pull(&su.s.clone(), 10, true).await;
            }
            su.seq.advance_to(latest + MS).await;
            su.seq.pull(&su.s.clone(), 10, true).await;
        } else {
            su.seq.advance_to(latest + MS).await;
            su.seq.check_streams_drained(&mut rep);
        }
        su.seq.flush(&mut rep);
    }
    rep.nontrivial = true;
    rep.key = format!("C {}", label);
    rep.history = su.seq.history(80);
    su.w.shutdown();
    rep
}

/// Batches in which dead (unknown / stale) IDs precede live ones, duplicate IDs, and a
/// modification that sets exactly the deadline the lease already has. Every live ID of an
/// accepted request must be treated as if it had been sent alone.
async fn grid_d(p: &EpParams, case: u64) -> EpReport {
    let mut rep = EpReport::default();
    let stream = matches!(case, 2 | 3 | 8 | 12 | 13 | 14 | 15 | 18 | 19 | 22 | 23);
    let mut su = setup(p, stream).await;
    if su.ids.len() != 2 {
        rep.inconclusive("setup did not hand out two messages");
        return rep;
    }
    let s = su.s.clone();
    let (a1, a2) = (su.ids[0].clone(), su.ids[1].clone());
    let unknown = "424242".to_string();
    su.seq.advance_to(su.h + 2 * SEC).await;
    let label;
    match case {
        0 => {
            label = "unary [unknown, a1, a2] +30";
            su.seq.modify(&s, &[unknown.clone(), a1.clone(), a2.clone()], 30).await;
        }
        1 => {
            // make a2 stale first: nack it and lease the message again under a new ID
            label = "unary [stale, a1] nack";
            su.seq.modify(&s, &[a2.clone()], 0).await;
            su.seq.pull(&s, 10, true).await;
            su.seq.modify(&s, &[a2.clone(), a1.clone()], 0).await;
            let got = su.seq.pull(&s, 10, true).await; // a1's message must be available now
            if got.is_empty() {
                rep.viol("C05", "C05:live-id-after-dead-id-ignored", "ModifyAckDeadline([stale, live], 0): the live delivery was not nacked");
            }
        }
        2 => {
            label = "stream [unknown, a1] secs [30, 0]";
            do_modify(&mut su, "stream", &[unknown.clone(), a1.clone()], &[30, 0]).await;
            su.seq.check_streams_drained(&mut rep);
            if su.seq.m.subs[&s].delivered.get("m1").copied().unwrap_or(0) < 2 {
                rep.viol("C05", "C05:live-id-after-dead-id-ignored", "StreamingPull modify [unknown, live] with seconds [30, 0]: the live delivery was not nacked");
            }
        }
        3 => {
            label = "stream [a1, a1] secs [20, 120]";
            do_modify(&mut su, "stream", &[a1.clone(), a1.clone()], &[20, 120]).await;
        }
        4 => {
            label = "unary [a1, a1] +30 (duplicate)";
            su.seq.modify(&s, &[a1.clone(), a1.clone()], 30).await;
        }
        5 => {
            // the new deadline equals the current one: modify(10) in the very instant of the hand-out
            label = "unary a1 +10 at the hand-out instant (same deadline)";
            let mut su2 = setup_same_instant(p).await;
            std::mem::swap(&mut su, &mut su2);
            su2.w.shutdown();
        }
        6 => {
            label = "ack [stale, a1]";
            su.seq.modify(&s, &[a2.clone()], 0).await;
            su.seq.pull(&s, 10, true).await;
            su.seq.ack(&s, &[a2.clone(), a1.clone()]).await;
        }
        7 => {
            label = "ack [unknown, a1, a2]";
            su.seq.ack(&s, &[unknown.clone(), a1.clone(), a2.clone()]).await;
        }
        12 => {
            // per-ID seconds with the nack FIRST: the later IDs keep their own values
            label = "stream [a1, a2] secs [0, 30]";
            do_modify(&mut su, "stream", &[a1.clone(), a2.clone()], &[0, 30]).await;
        }
        13 => {
            label = "stream [a1, a2] secs [30, 0]";
            do_modify(&mut su, "stream", &[a1.clone(), a2.clone()], &[30, 0]).await;
        }
        10 => {
            label = "ack [a1, a1, a2] (duplicate)";
            su.seq.ack(&s, &[a1.clone(), a1.clone(), a2.clone()]).await;
        }
        11 => {
            label = "unary [a2, a1, a2] nack (duplicate)";
            su.seq.modify(&s, &[a2.clone(), a1.clone(), a2.clone()], 0).await;
            let got = su.seq.pull(&s, 10, true).await;
            if got.len() != 2 {
                rep.viol("C05", "C05:nack-not-available", format!("ModifyAckDeadline([a2, a1, a2], 0) made {} of 2 messages available", got.len()));
            }
        }
        20 | 21 | 22 | 23 => {
            // as many entries as there are outstanding deliveries (two), one of them unknown: the
            // delivery that is *not* named keeps its lease (extension 20/22, shortening 21/23; unary
            // 20/21, control message 22/23)
            let secs = if case % 2 == 0 { 30 } else { 3 };
            if case < 22 {
                label = if secs == 30 { "unary [unknown, a1] +30 with two deliveries outstanding" } else { "unary [unknown, a1] +3 with two deliveries outstanding" };
                su.seq.modify(&s, &[unknown.clone(), a1.clone()], secs).await;
            } else {
                label = if secs == 30 { "stream [unknown, a1] secs [30, 30] with two deliveries outstanding" } else { "stream [unknown, a1] secs [3, 3] with two deliveries outstanding" };
                do_modify(&mut su, "stream", &[unknown.clone(), a1.clone()], &[secs, secs]).await;
            }
        }
        18 | 19 => {
            // one delivery named twice with different seconds: an extension and then a nack (18) / a
            // short extension and then a long one (19); the last entry stands, and nothing is left
            // behind that fires later
            let secs = if case == 18 { [20, 0] } else { [1, 600] };
            label = if case == 18 { "stream [a1, a1] secs [20, 0]" } else { "stream [a1, a1] secs [1, 600]" };
            do_modify(&mut su, "stream", &[a1.clone(), a1.clone()], &secs).await;
        }
        16 | 17 => {
            // a request with as many entries as there are leases, none of which is a lease: a late
            // nack (16) / extension (17) for a delivery that was acknowledged long ago must leave the
            // one delivery that is outstanding alone
            label = if case == 16 { "unary nack [acked id] while one other lease is outstanding" } else { "unary +30 [acked id] while one other lease is outstanding" };
            su.seq.ack(&s, &[a1.clone()]).await;
            su.seq.modify(&s, &[a1.clone()], if case == 16 { 0 } else { 30 }).await;
            let got = su.seq.pull(&s, 10, true).await;
            if !got.is_empty() {
                rep.viol("C05", "C05:dead-id-modified-a-live-lease", format!("ModifyAckDeadline on an acknowledged ID made {} message(s) available", got.len()));
            }
        }
        14 | 15 => {
            // one control message names the same delivery as acknowledged and as modified (nacked /
            // extended): it was acknowledged, so it must not come back
            let secs = if case == 14 { 0 } else { 30 };
            label = if case == 14 { "stream ack [a1] + modify [a1] secs [0]" } else { "stream ack [a1] + modify [a1] secs [30]" };
            let now = su.seq.now();
            su.seq.streams[&s].send(&[a1.clone()], &[a1.clone()], &[secs]);
            su.w.settle().await;
            su.seq.m.acked(&s, &[a1.clone()], now);
            su.seq.after_step("AckModify").await;
        }
        8 => {
            label = "stream ack [unknown, a1] + modify [unknown, a2] +30";
            let now = su.seq.now();
            su.seq.streams[&s].send(&[unknown.clone(), a1.clone()], &[unknown.clone(), a2.clone()], &[30, 30]);
            su.w.settle().await;
            su.seq.m.acked(&s, &[a1.clone()], now);
            su.seq.m.modified(&s, &[a2.clone()], 30, now);
            su.seq.after_step("AckModify").await;
        }
        _ => {
            label = "unary [a1, unknown, a2] +3 (shorten)";
            su.seq.modify(&s, &[a1.clone(), unknown.clone(), a2.clone()], 3).await;
        }
    }
    // Walk across every deadline the model knows, probing on both sides.
    let s = su.s.clone();
    for _ in 0..6 {
        let now = su.seq.now();
        let next = su.seq.m.subs.get(&s).map(|x| x.leases.values().filter(|l| l.hi >= now).map(|l| (l.lo, l.hi)).min()).unwrap_or(None);
        let Some((lo, hi)) = next else { break };
        if lo > now + MS {
            su.seq.advance_to(lo - MS).await;
            if stream {
                su.seq.check_streams_drained(&mut rep);
            } else {
                su.seq.pull(&s, 10, true).await;
            }
        }
        su.seq.advance_to(hi + MS).await;
        if stream {
            su.seq.check_streams_drained(&mut rep);
        } else {
            let got = su.seq.pull(&s, 10, true).await;
            // acknowledge what came back so that the walk terminates
            let ids: Vec<String> = got.iter().map(|d| d.ack_id.clone()).collect();
            if !ids.is_empty() {
                su.seq.ack(&s, &ids).await;
            }
        }
        if stream {
            // ack what the stream got again
            let ids: Vec<String> = su.seq.m.subs[&s].leases.keys().cloned().collect();
            if su.seq.m.subs[&s].delivered.values().all(|n| *n >= 2) && !ids.is_empty() {
                su.seq.ack(&s, &ids).await;
            }
        }
    }
    su.seq.check_stats("Modify").await;
    // nothing is left behind that fires later: eleven more minutes (longer than any deadline a
    // modification can set), then the same comparison again
    let later = su.seq.now() + 660 * SEC;
    su.seq.advance_to(later).await;
    if stream {
        su.seq.check_streams_drained(&mut rep);
    }
    su.seq.check_stats("Advance").await;
    su.seq.flush(&mut rep);
    rep.nontrivial = true;
    rep.inc("mixed_batches_checked");
    rep.key = format!("D {}", label);
    rep.history = su.seq.history(80);
    su.w.shutdown();
    rep
}

/// Hand-out and ModifyAckDeadline(10) in the same virtual instant on a 10 s subscription.
async fn setup_same_instant(p: &EpParams) -> Setup {
    let mut rng = Rng::new(p.ep_seed ^ 0x55);
    let w = World::new(transport_of(p), true, Some(rng.below(100))).await;
    let mut seq = Seq::new(&w);
    let (t, s) = (topic_name(1, 1), sub_name(1, 1));
    seq.create_topic(&t).await;
    seq.create_sub(&s, &t, 10).await;
    seq.publish(&t, 2).await;
    seq.settle_each_step = false;
    let ids: Vec<String> = seq.pull(&s, 10, true).await.iter().map(|d| d.ack_id.clone()).collect();
    if !ids.is_empty() {
        seq.modify(&s, &[ids[0].clone()], 10).await;
    }
    seq.settle_each_step = true;
    let h = seq.m.subs[&s].leases.values().map(|l| l.handed).min().unwrap_or(0);
    Setup { w, seq, t, s, ids, h, a: 10 * SEC }
}

async fn random_episode(p: &EpParams) -> EpReport {
    let mut rep = EpReport::default();
    let mut rng = Rng::new(p.ep_seed);
    let w = World::new(transport_of(p), true, Some(rng.below(100))).await;
    let mut seq = Seq::new(&w);
    let mut c = Ctx {
        t: topic_name(1, 1),
        s1: sub_name(1, 1),
        s2: sub_name(1, 2),
        past_ids: vec![],
        last_acked: None,
        effective_acks: 0,
        odd_acks: 0,
        crossings_after_ack: 0,
        modifies: 0,
        nacks: 0,
        dup_nacks: 0,
        stream_acks: 0,
    };
    seq.create_topic(&c.t.clone()).await;
    seq.create_sub(&c.s1.clone(), &c.t.clone(), 10).await;
    seq.create_sub(&c.s2.clone(), &c.t.clone(), *rng.pick(&[10, 20])).await;
    let letters = [
        "publish", "publish3", "pull1", "pullall", "modify_oldest_30", "modify_newest_3", "modify_oldest_700", "modify_oldest_30", "modify_newest_3", "nack_oldest", "ack_oldest", "adv_before",
        "adv_past", "adv_before", "adv_past", "jitter", "pull1", "ack_stale",
    ];
    let n = rng.range(30, 70);
    let mut ls = Vec::new();
    for _ in 0..n {
        let l = *rng.pick(&letters);
        let s = if rng.chance(2, 3) { c.s1.clone() } else { c.s2.clone() };
        if l == "jitter" {
            seq.advance(Duration::from_millis(rng.range(1, 4000))).await;
        } else {
            apply(&mut seq, &mut c, l, &s).await;
        }
        ls.push(format!("{}{}", l, if s == c.s1 { "" } else { "@2" }));
    }
    epilogue(&mut seq, &mut c, 2).await;
    seq.flush(&mut rep);
    rep.nontrivial = c.modifies + c.nacks > 0;
    rep.add("modifications", c.modifies);
    rep.add("nacks", c.nacks);
    rep.key = ls.join(",");
    rep.history = seq.history(120);
    w.shutdown();
    rep
}
