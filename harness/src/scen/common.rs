//! Helpers shared by scenarios.

use crate::report::*;
use crate::world::*;

pub fn topic_name(project: u32, i: u32) -> String {
    format!("projects/p{}/topics/t{}", project, i)
}

pub fn sub_name(project: u32, i: u32) -> String {
    format!("projects/p{}/subscriptions/s{}", project, i)
}

pub fn transport_of(p: &EpParams) -> Transport {
    if p.transport == "h2" {
        Transport::H2
    } else {
        Transport::Direct
    }
}

pub fn tier_thorough(p: &EpParams) -> bool {
    p.tier == "thorough"
}

pub const NOT_FOUND: i32 = 5;
pub const INVALID_ARGUMENT: i32 = 3;
pub const ALREADY_EXISTS: i32 = 6;
pub const FAILED_PRECONDITION: i32 = 9;
pub const INTERNAL: i32 = 13;
pub const UNKNOWN: i32 = 2;
pub const CANCELLED: i32 = 1;
pub const UNIMPLEMENTED: i32 = 12;
pub const UNAVAILABLE: i32 = 14;
