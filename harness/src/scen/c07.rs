//! C07 — every request terminates: no deadlock between topic and subscription actors.
//!
//! Burst episodes: 17-60 simultaneous requests of mixed kinds on one
//! subscription and/or its topic (bigger than the 16-slot mailboxes), combined
//! with Publish, DeleteSubscription, DeleteTopic, CreateSubscription. After the
//! last call has been issued the paused clock auto-advances one hour: whatever
//! is still pending then can never complete (Q-term, DESIGN 4/C07).

use super::common::*;
use super::Plan;
use crate::client::*;
use crate::rec::*;
use crate::report::*;
use crate::rng::Rng;
use crate::world::*;
use std::collections::BTreeSet;
use std::time::Duration;

pub fn plan(p: &EpParams) -> Plan {
    let n = if p.engine == "mt" {
        if tier_thorough(p) { 3_000 } else { 400 }
    } else if tier_thorough(p) {
        if p.transport == "h2" { 8_000 } else { 80_000 }
    } else {
        5_000
    };
    Plan {
        episodes: n,
        exhaustive: false,
        rule: "burst episodes: 17-60 simultaneous calls (Ack/Modify/PullRI/GetSub/blocking Pull/ListTopicSubs) on one subscription and its topic, with Publish x1-3, optional DeleteSubscription (one to three crossing deletes of the same subscription, or one abandoned by its client after 0-3 scheduler turns) / DeleteTopic / CreateSubscription / stream control messages (half of them sent while the stream's own subscription is flooded with 20-70 look-ups); seeded yields at every mailbox site. Non-trivial: a mailbox was observed full (hook counter) and >=17 calls were in flight. Distinct: multiset of in-flight call kinds x which mailboxes saturated x outcome classes.".into(),
    }
}

pub fn run(p: &EpParams) -> EpReport {
    let mt = p.engine == "mt";
    let rt = episode_runtime(p.ep_seed, !mt, false, if mt { 4 } else { 1 });
    let p2 = p.clone();
    rt.block_on(async move { episode(&p2, mt).await })
}

async fn episode(p: &EpParams, mt: bool) -> EpReport {
    let mut rep = EpReport::default();
    let mut rng = Rng::new(p.ep_seed);
    let w = World::new(transport_of(p), !mt, Some(rng.below(100))).await;
    let c0 = Cx::new(&w, 0);
    let t = topic_name(1, 1);
    let n_subs = rng.range(1, 3) as u32;
    let subs: Vec<String> = (1..=n_subs).map(|i| sub_name(1, i)).collect();
    c0.create_topic(&t).await.ok();
    for s in &subs {
        c0.create_sub(s, &t, 10).await.ok();
    }
    let target = subs[0].clone();
    // pulls of the burst that came back with more than they asked for (seen from C15)
    let over_limit: std::sync::Arc<std::sync::Mutex<Vec<String>>> = Default::default();

    // Leases on the target so that ack/modify have something to chew on.
    let k = rng.below(7);
    if k > 0 {
        let msgs: Vec<Msg> = (0..k).map(|i| Msg::tagged(&format!("pre{}", i))).collect();
        c0.publish(&t, &msgs).await.ok();
    }
    let mut lease_ids = vec![];
    if let Ok(ds) = c0.pull(&target, 100, true).await {
        lease_ids = ds.iter().map(|d| d.ack_id.clone()).collect();
    }
    // A healthy stream on the last subscription: its control messages must get processed.
    let mut stream = None;
    let mut stream_acked: Vec<String> = vec![];
    let stream_sub = subs[subs.len() - 1].clone();
    if n_subs >= 2 && rng.chance(1, 2) {
        if let Ok(h) = Cx::new(&w, 5).open_stream(&stream_sub, 0).await {
            stream = Some(h);
        }
    }
    w.settle().await;
    // one episode in eight: the topic is already gone when the burst starts (the target lives on,
    // detached) and the burst contains two or three crossing deletes of the target
    let topic_gone_first = rng.chance(1, 8);
    if topic_gone_first {
        let _ = c0.delete_topic(&t).await;
        w.settle().await;
        rep.inc("bursts_on_a_detached_subscription");
    }

    let hooks_before: u64 = hook_count("sub.mailbox_full") + hook_count("topic.mailbox_full");

    let n_burst = rng.range(17, 60);
    let with_delete_sub = rng.chance(1, 2) || topic_gone_first;
    let with_delete_topic = rng.chance(1, 6);
    let with_create = rng.chance(1, 3);
    let n_publish = rng.range(0, 3);
    let topic_heavy = rng.chance(1, 4);
    // one burst in six: the acks carry more than a thousand IDs each (mostly unknown ones)
    let long_acks = rng.chance(1, 6);

    let mut kinds: Vec<&'static str> = Vec::new();
    let mut tasks: Vec<(&'static str, u64, tokio::task::JoinHandle<()>)> = Vec::new();
    let mut specials: Vec<&'static str> = Vec::new();
    if with_delete_sub {
        specials.push("DeleteSub");
        // sometimes two (or three) deletes of the same subscription cross each other
        if rng.chance(1, 3) || topic_gone_first {
            specials.push("DeleteSub");
            if rng.chance(1, 3) {
                specials.push("DeleteSub");
            }
        }
    }
    // a DeleteSubscription whose client goes away after a few scheduler turns (possibly while it
    // waits for room in the full mailbox): later deletes of that subscription must still be answered
    if rng.chance(1, 4) {
        specials.push("DeleteSubAbandoned");
    }
    if with_delete_topic {
        specials.push("DeleteTopic");
    }
    if with_create {
        specials.push("CreateSub");
        // ... sometimes deleted again in the same burst (a publish may then meet a subscription
        // that is attached although its actor is gone; it must still be answered)
        if rng.chance(1, 2) {
            specials.push("DeleteNewSub");
            specials.push("Publish");
            specials.push("Publish");
        }
    }
    for _ in 0..n_publish {
        specials.push("Publish");
    }
    // positions of the special calls inside the burst
    let mut order: Vec<&'static str> = Vec::new();
    for _ in 0..n_burst {
        let k = if topic_heavy {
            *rng.pick(&["ListTopicSubs", "ListTopicSubs", "Publish1", "GetSub", "Ack"])
        } else {
            if long_acks {
                *rng.pick(&["Ack", "Ack", "Ack", "Modify", "PullRI", "GetSub", "Ack", "Ack", "ListTopicSubs"])
            } else {
                *rng.pick(&["Ack", "Modify", "PullRI", "GetSub", "Ack", "Modify", "PullRI", "Pull", "ListTopicSubs"])
            }
        };
        order.push(k);
    }
    for s in specials {
        let pos = rng.below(order.len() as u64 + 1) as usize;
        order.insert(pos, s);
    }
    let mut blocking_calls: Vec<u64> = Vec::new();
    for (i, kind) in order.iter().enumerate() {
        let cx = Cx::new(&w, 100 + i as u32);
        // Ack IDs are scoped per subscription: ack/modify calls carry the target's
        // lease IDs and therefore go to the target only (the same numbers would hit
        // unrelated leases on another subscription).
        let sub = if matches!(*kind, "Ack" | "Modify" | "DeleteSub" | "DeleteSubAbandoned") || rng.chance(5, 6) { target.clone() } else { rng.pick(&subs).clone() };
        let t2 = t.clone();
        let mut ids = lease_ids.clone();
        if long_acks && *kind == "Ack" {
            ids.extend((0..rng.range(1001, 2500)).map(|k| format!("{}", 500_000 + k)));
        }
        let secs = *rng.pick(&[0, 15, 600]);
        let tag = format!("b{}", i);
        let kind = *kind;
        kinds.push(kind);
        let new_sub = sub_name(1, 9);
        let start_vt = w.vt();
        let abandon_after = rng.below(4);
        let pull_limit = *rng.pick(&[1, 3]);
        let over = std::sync::Arc::clone(&over_limit);
        let h = tokio::spawn(async move {
            match kind {
                "DeleteSubAbandoned" => {
                    let c2 = cx.clone();
                    let s2 = sub.clone();
                    let call = tokio::spawn(async move {
                        let _ = c2.delete_sub(&s2).await;
                    });
                    for _ in 0..abandon_after {
                        tokio::task::yield_now().await;
                    }
                    call.abort();
                    let _ = call.await;
                }
                "Ack" => {
                    let _ = cx.ack(&sub, &ids).await;
                }
                "Modify" => {
                    let _ = cx.modify(&sub, &ids, secs).await;
                }
                "PullRI" => {
                    if let Ok(ds) = cx.pull(&sub, pull_limit, true).await {
                        if ds.len() > pull_limit as usize {
                            over.lock().unwrap().push(format!("Pull(max_messages {}, return_immediately) returned {} messages", pull_limit, ds.len()));
                        }
                    }
                }
                "Pull" => {
                    if let Ok(ds) = cx.pull(&sub, pull_limit, false).await {
                        if ds.len() > pull_limit as usize {
                            over.lock().unwrap().push(format!("Pull(max_messages {}) returned {} messages", pull_limit, ds.len()));
                        }
                    }
                }
                "GetSub" => {
                    let _ = cx.get_sub(&sub).await;
                }
                "ListTopicSubs" => {
                    let _ = cx.list_topic_subs(&t2, 0, "").await;
                }
                "Publish" | "Publish1" => {
                    let _ = cx.publish(&t2, &[Msg::tagged(&tag)]).await;
                }
                "DeleteSub" => {
                    let _ = cx.delete_sub(&sub).await;
                }
                "DeleteTopic" => {
                    let _ = cx.delete_topic(&t2).await;
                }
                "CreateSub" => {
                    let _ = cx.create_sub(&new_sub, &t2, 10).await;
                }
                "DeleteNewSub" => {
                    let _ = cx.delete_sub(&new_sub).await;
                }
                _ => {}
            }
        });
        if kind == "Pull" {
            blocking_calls.push(start_vt);
        }
        tasks.push((kind, start_vt, h));
    }
    // one burst in five arrives in the very instant in which the leases taken before it run out (the
    // subscription actor finds a full mailbox and its expiry timer ready together)
    let mut jumped = false;
    if rng.chance(1, 5) && !lease_ids.is_empty() && !mt {
        tokio::time::advance(Duration::from_millis(10_000 + rng.below(200))).await;
        rep.inc("bursts_at_the_expiry_instant");
        // (the stream's own deliveries have expired as well: its acks below come too late to count)
        jumped = true;
    }
    // Stream control message inside the burst window.
    if let Some(h) = stream.as_ref().filter(|_| !jumped) {
        let ds = h.deliveries();
        if !ds.is_empty() {
            let ids: Vec<String> = ds.iter().map(|d| d.ack_id.clone()).collect();
            stream_acked = ds.iter().map(|d| d.tag.clone()).collect();
            // half of the time the stream's own subscription is flooded with look-ups at that moment
            // (they change nothing, but its mailbox is full when the control message arrives)
            if rng.chance(1, 2) && !mt {
                let n = rng.range(20, 70);
                for i in 0..n {
                    let (c, sp) = (Cx::new(&w, 400 + i as u32), stream_sub.clone());
                    let hnd = tokio::spawn(async move {
                        let _ = c.get_sub(&sp).await;
                    });
                    tasks.push(("GetSub", w.vt(), hnd));
                }
                rep.inc("stream_control_sent_into_a_flooded_mailbox");
            }
            h.send(&ids, &[], &[]);
        }
    }

    // After the last call: blocking pulls get 5 min + 1 s, everything else must be done at quiescence.
    if mt {
        // real time: a generous wall-clock watchdog; firing is inconclusive
        let deadline = std::time::Instant::now() + Duration::from_secs(20);
        loop {
            let pending = tasks.iter().filter(|(k, _, h)| *k != "Pull" && !h.is_finished()).count();
            if pending == 0 {
                break;
            }
            if std::time::Instant::now() > deadline {
                rep.inconclusive("mt-watchdog: calls still pending after 20 s of wall time");
                break;
            }
            tokio::time::sleep(Duration::from_millis(5)).await;
        }
        for (_, _, h) in &tasks {
            h.abort();
        }
    } else {
        w.settle().await;
        // half-way through the blocking pulls' wait: wake-ups that bring nothing (empty publishes)
        // must not extend the 5-minute limit
        w.advance(Duration::from_secs(150)).await;
        if !with_delete_topic && !topic_gone_first {
            for _ in 0..4 {
                // (bounded: if the topic is wedged this call would never return, and the wedge is
                // reported by the pending burst calls below)
                let _ = tokio::time::timeout(Duration::from_secs(1), Cx::new(&w, 6).publish(&t, &[])).await;
            }
            rep.inc("empty_wakeups_mid_wait");
        }
        w.advance(Duration::from_secs(151)).await;
        w.settle().await;
        let mut pending_pulls = 0;
        for (k, _, h) in &tasks {
            if *k == "Pull" && !h.is_finished() {
                pending_pulls += 1;
            }
        }
        w.advance(Duration::from_secs(3600)).await;
        w.settle().await;
        let mut pending: BTreeSet<&'static str> = BTreeSet::new();
        let mut n_pending = 0;
        for (k, _, h) in &tasks {
            if !h.is_finished() {
                pending.insert(match *k {
                    "Publish1" => "Publish",
                    x => x,
                });
                n_pending += 1;
            }
        }
        if !pending.is_empty() {
            let ks: Vec<&str> = pending.iter().copied().collect();
            rep.viol(
                "C07",
                format!("C07:Q-term:pending{{{}}}", ks.join(",")),
                format!("{} call(s) still pending one virtual hour after the last request was issued (burst of {} calls)", n_pending, order.len()),
            );
            rep.add("calls_pending_after_1h", n_pending);
        } else if pending_pulls > 0 {
            rep.viol("C07", "C07:Q-term:blocking-pull-over-limit", format!("{} blocking Pull(s) still pending 5 min + 1 s after they were issued", pending_pulls));
        }
        // Follow-up probes per touched resource.
        let probe_publish_expected_ok;
        let probes: Vec<(&'static str, tokio::task::JoinHandle<()>)> = {
            let mut v = Vec::new();
            let cx = Cx::new(&w, 900);
            let t2 = t.clone();
            v.push(("probe-ListTopicSubs", tokio::spawn({
                let cx = cx.clone();
                let t2 = t2.clone();
                async move {
                    let _ = cx.list_topic_subs(&t2, 0, "").await;
                }
            })));
            v.push(("probe-Publish", tokio::spawn({
                let cx = cx.clone();
                let t2 = t2.clone();
                async move {
                    let _ = cx.publish(&t2, &[Msg::tagged("probe")]).await;
                }
            })));
            probe_publish_expected_ok = !with_delete_topic && !topic_gone_first;
            for s in subs.iter() {
                let cx = cx.clone();
                let s = s.clone();
                v.push(("probe-GetSub", tokio::spawn(async move {
                    let _ = cx.get_sub(&s).await;
                })));
            }
            // a (possibly repeated) delete of the target is answered, whatever happened to earlier deletes
            {
                let cx = cx.clone();
                let s = target.clone();
                v.push(("probe-DeleteSub", tokio::spawn(async move {
                    let _ = cx.delete_sub(&s).await;
                })));
            }
            v
        };
        w.advance(Duration::from_secs(3600)).await;
        w.settle().await;
        if pending.is_empty() {
            for (k, h) in &probes {
                if !h.is_finished() {
                    rep.viol("C07", format!("C07:Q-term:{}-pending", k), format!("{} issued after the burst never returned", k));
                }
            }
        }
        for (_, h) in &probes {
            h.abort();
        }
        // a live topic keeps accepting publishes after the burst (a subscription that died while
        // it was being attached must not poison its topic)
        if probe_publish_expected_ok && pending.is_empty() {
            let hist = w.history();
            if let Some(o) = hist.ops.values().find(|o| matches!(&o.op, Op::Publish { tags, .. } if tags == &vec!["probe".to_string()])) {
                if let Some((_, _, Out::Status(c, m))) = &o.ret {
                    rep.viol("C07", format!("C07:probe-publish-status:code={}", c), format!("after the burst a Publish to the live topic answers {}: {}", c, m));
                }
            }
        }
        for m in over_limit.lock().unwrap().iter() {
            rep.viol("C15", "C15:over-limit:Pull:in-burst", format!("{} (burst of {} calls{})", m, order.len(), if jumped { ", arriving in the instant the earlier leases ran out" } else { "" }));
        }
        // Control message on a healthy stream must have been processed.
        if let Some(h) = &stream {
            if h.ended().is_none() && !stream_acked.is_empty() && pending.is_empty() {
                // the acked messages must not come back (deadline long past)
                let later: Vec<String> = h.deliveries().iter().skip(stream_acked.len()).map(|d| d.tag.clone()).collect();
                for tag in &stream_acked {
                    if later.contains(tag) {
                        rep.viol("C07", "C07:stream-control-not-processed", format!("message {} acked on an open healthy stream was redelivered", tag));
                    }
                }
                rep.inc("stream_control_checked");
            }
        }
        for (_, _, h) in &tasks {
            h.abort();
        }
    }

    let full_now = hook_count("sub.mailbox_full") + hook_count("topic.mailbox_full");
    let saturated = full_now > hooks_before;
    rep.add("mailbox_full_observations", full_now - hooks_before);
    rep.nontrivial = saturated && order.len() >= 17;
    let hist = w.history();
    let mut outcome_classes: BTreeSet<String> = BTreeSet::new();
    for o in hist.ops.values() {
        if let Some((_, _, out)) = &o.ret {
            outcome_classes.insert(format!("{}:{}", o.op.kind(), out.class()));
            if let Out::Panic(m) = out {
                rep.viol("C17", "C17:panic-in-handler", m.clone());
            }
        }
    }
    let mut ks = kinds.clone();
    ks.sort();
    let mut counts: Vec<String> = Vec::new();
    let mut i = 0;
    while i < ks.len() {
        let mut j = i;
        while j < ks.len() && ks[j] == ks[i] {
            j += 1;
        }
        counts.push(format!("{}x{}", ks[i], j - i));
        i = j;
    }
    rep.key = format!("kinds={:?} sat={} subs={} outcomes={:?}", counts, saturated, n_subs, outcome_classes);
    rep.history = hist.abstract_lines(400);
    drop(stream);
    w.shutdown();
    rep
}

pub fn hook_count(site: &str) -> u64 {
    deltio::verif::snapshot().into_iter().find(|(k, _)| k == site).map(|(_, v)| v).unwrap_or(0)
}
