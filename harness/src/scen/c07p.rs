//! C07, lock nesting (manager -> registry only): control-plane requests against a ticking
//! push loop on real worker threads.
//!
//! The manager and registry `RwLock`s are synchronous: a wrong nesting order cannot show on
//! the single-thread virtual-time engine (no lock is held across an await). This scenario
//! runs the real thing on a multi-thread runtime with the push loop ticking every
//! millisecond over a few hundred registered push subscriptions while several clients
//! create / look up / delete push subscriptions and use a plain one.
//!
//! Verdict discipline (real clock): the monitor thread is not a runtime worker. It counts
//! completed client calls. A window of `STALL_S` seconds of wall time in which *no* call
//! completed although calls are outstanding is a violation (blocked threads make no
//! progress however long one waits; a slow machine makes little, not none); an episode
//! that keeps progressing but is not done after `LIMIT_S` is inconclusive.

use super::common::*;
use super::Plan;
use crate::client::*;
use crate::rec::*;
use crate::report::*;
use crate::rng::Rng;
use crate::world::*;
use std::sync::atomic::{AtomicBool, AtomicU64, Ordering};
use std::sync::{Arc, Mutex};
use std::time::Duration;

const STALL_S: u64 = 15;
const LIMIT_S: u64 = 90;
/// Nothing listens there (discard port, loopback): a connection attempt fails at once.
const ENDPOINT: &str = "http://127.0.0.1:9/push";

pub fn plan(p: &EpParams) -> Plan {
    let n = if tier_thorough(p) { 160 } else { 32 };
    Plan {
        episodes: n,
        exhaustive: false,
        rule: "multi-thread runtime (6 workers, real clock): 300-1200 registered push subscriptions, the push loop ticking every 1-3 ms, 3-5 clients each issuing calls for 150 ms (quick) / 400 ms (thorough) of wall time and at least 400 of them (bounded by 3 s), drawn from CreateSubscription(push) / GetSubscription / DeleteSubscription / ListSubscriptions / Pull(return_immediately) / Publish / Acknowledge, and on the topic map (40 topics + a pool of 4 names) ListTopics / CreateTopic / DeleteTopic / GetTopic / ListTopicSubscriptions. Oracle: completed-call counter watched from a non-worker thread; no completion for 15 s of wall time while calls are outstanding, and none in another 15 s after the monitor has stopped the push loop = violation (blocked threads); calls that complete once the loop is stopped were buried under push rounds on a busy machine = inconclusive; not done after 90 s = inconclusive. Non-trivial: push subscriptions were created while the loop was ticking (registry walked at least 20 times during the client phase). Distinct: (registered, interval, clients, calls per kind).".into(),
    }
}

struct Shared {
    completed: AtomicU64,
    outstanding: AtomicU64,
    done: AtomicBool,
    last_calls: Mutex<Vec<String>>,
    /// the push loop task of the running episode (the monitor stops it to tell overload from blockage)
    push_abort: Mutex<Option<tokio::task::AbortHandle>>,
}

pub fn run(p: &EpParams) -> EpReport {
    let rt = episode_runtime(p.ep_seed, false, true, 6);
    let shared = Arc::new(Shared { completed: AtomicU64::new(0), outstanding: AtomicU64::new(0), done: AtomicBool::new(false), last_calls: Mutex::new(vec![]), push_abort: Mutex::new(None) });
    crate::LIVELOCK_OFF.store(true, Ordering::SeqCst);
    let (tx, rx) = std::sync::mpsc::channel::<EpReport>();
    let p2 = p.clone();
    let sh = shared.clone();
    rt.spawn(async move {
        let rep = episode(&p2, sh).await;
        let _ = tx.send(rep);
    });
    let t0 = std::time::Instant::now();
    let mut last = (shared.completed.load(Ordering::SeqCst), std::time::Instant::now());
    let mut overloaded = false;
    let rep = loop {
        match rx.recv_timeout(Duration::from_millis(200)) {
            Ok(mut rep) => {
                if overloaded {
                    rep.inconclusive("c07p: client calls made no progress for 15 s of wall time and completed once the push loop was stopped (run queue buried under push rounds on a busy machine): not a verdict");
                }
                break rep;
            }
            Err(std::sync::mpsc::RecvTimeoutError::Disconnected) => {
                let mut rep = EpReport::default();
                rep.inconclusive("c07p: the episode task ended without a report (panicked?)");
                break rep;
            }
            Err(std::sync::mpsc::RecvTimeoutError::Timeout) => {
                let c = shared.completed.load(Ordering::SeqCst);
                if c != last.0 {
                    last = (c, std::time::Instant::now());
                } else if last.1.elapsed().as_secs() >= STALL_S && shared.outstanding.load(Ordering::SeqCst) > 0 {
                    // Blocked, or buried? The push loop spawns a pull per registered subscription per
                    // tick without waiting for the last round; on a machine that is busy elsewhere the
                    // run queue can grow faster than it drains, and a client call then waits behind it
                    // for as long as the loop keeps ticking. Stop the loop: a buried call completes
                    // once the queue has drained, a call behind a blocked thread does not (a thread
                    // blocked on a lock is not freed by aborting a task).
                    if let Some(a) = shared.push_abort.lock().unwrap().take() {
                        a.abort();
                        let t_stop = std::time::Instant::now();
                        let mut resumed = false;
                        while t_stop.elapsed().as_secs() < STALL_S {
                            std::thread::sleep(Duration::from_millis(200));
                            if shared.completed.load(Ordering::SeqCst) != c || shared.outstanding.load(Ordering::SeqCst) == 0 {
                                resumed = true;
                                break;
                            }
                        }
                        if resumed {
                            overloaded = true;
                            last = (shared.completed.load(Ordering::SeqCst), std::time::Instant::now());
                            continue;
                        }
                    }
                    let mut rep = EpReport::default();
                    let calls = shared.last_calls.lock().unwrap().clone();
                    let mut kinds: Vec<String> = calls.iter().map(|c| c.split(' ').next().unwrap_or("").to_string()).collect();
                    kinds.sort();
                    kinds.dedup();
                    rep.viol(
                        "C07",
                        format!("C07:Q-term:mt-no-progress{{{}}}", kinds.join(",")),
                        format!(
                            "no client call completed for {} s of wall time on a 6-worker runtime although {} call(s) are outstanding ({} completed before); outstanding: {:?}",
                            STALL_S,
                            shared.outstanding.load(Ordering::SeqCst),
                            c,
                            calls
                        ),
                    );
                    rep.history = calls;
                    rep.key = "stalled".into();
                    rep.nontrivial = true;
                    break rep;
                } else if t0.elapsed().as_secs() >= LIMIT_S {
                    let mut rep = EpReport::default();
                    rep.inconclusive(format!("c07p: still progressing but not done after {} s of wall time", LIMIT_S));
                    break rep;
                }
            }
        }
    };
    shared.done.store(true, Ordering::SeqCst);
    crate::LIVELOCK_OFF.store(false, Ordering::SeqCst);
    // blocked worker threads (if any) must not block the shard
    rt.shutdown_background();
    rep
}

async fn episode(p: &EpParams, sh: Arc<Shared>) -> EpReport {
    let mut rep = EpReport::default();
    let mut rng = Rng::new(p.ep_seed);
    let w = World::new(transport_of(p), false, None).await;
    let c0 = Cx::new(&w, 0);
    let t = topic_name(1, 1);
    c0.create_topic(&t).await.ok();
    let plain = sub_name(1, 1);
    c0.create_sub(&plain, &t, 10).await.ok();
    let registered = rng.range(300, 1200) as u32;
    for i in 0..registered {
        if c0.create_sub_full(&sub_name(1, 1000 + i), &t, 10, Some(ENDPOINT), Default::default()).await.is_ok() {
            rep.inc("registered_ok");
        }
    }
    // a page worth of other topics, and a small pool of topic names the clients create and delete
    for i in 0..40u32 {
        c0.create_topic(&topic_name(1, 100 + i)).await.ok();
    }
    let interval_ms = rng.range(1, 3);
    let walks_before = hook_total();
    let push_loop = tokio::spawn(w.app.push_loop(Duration::from_millis(interval_ms)).run());
    *sh.push_abort.lock().unwrap() = Some(push_loop.abort_handle());

    let n_clients = rng.range(3, 5) as u32;
    let mut handles = vec![];
    let kinds_count: Arc<Mutex<std::collections::BTreeMap<&'static str, u64>>> = Arc::new(Mutex::new(Default::default()));
    for c in 0..n_clients {
        let cx = Cx::new(&w, 10 + c);
        let mut r = Rng::new(p.ep_seed ^ (0x9e37 * (c as u64 + 1)));
        let t = t.clone();
        let plain = plain.clone();
        let sh = sh.clone();
        let kc = kinds_count.clone();
        let n_calls = 20_000u64;
        let phase = Duration::from_millis(if tier_thorough(p) { 400 } else { 150 });
        handles.push(tokio::spawn(async move {
            let mut mine: Vec<String> = vec![];
            let mut next = 0u32;
            let t_start = std::time::Instant::now();
            for i in 0..n_calls {
                // at least 400 calls per client however slow the machine is (bounded by 3 s), and no
                // fewer than fit into the phase
                if t_start.elapsed() >= phase && (i >= 400 || t_start.elapsed() >= Duration::from_secs(3)) {
                    break;
                }
                let kind = *r.pick(&["CreatePush", "CreatePush", "CreatePush", "GetSub", "DeleteSub", "ListSubs", "PullRI", "Publish", "Ack", "GetRegistered", "SharedCreate", "SharedCreate", "SharedDelete", "SharedDelete", "ListTopics", "ListTopics", "TopicCreate", "TopicDelete", "GetTopic", "ListTopicSubs"]);
                let label = format!("{} client={} call={}", kind, c, i);
                {
                    let mut l = sh.last_calls.lock().unwrap();
                    l.push(label.clone());
                }
                sh.outstanding.fetch_add(1, Ordering::SeqCst);
                match kind {
                    "CreatePush" => {
                        let name = sub_name(1, 100_000 * (c + 1) + next);
                        next += 1;
                        if cx.create_sub_full(&name, &t, 10, Some(ENDPOINT), Default::default()).await.is_ok() {
                            mine.push(name);
                            *kc.lock().unwrap().entry("CreatePushOk").or_insert(0) += 1;
                        }
                        if mine.len() > 40 {
                            let n = mine.remove(0);
                            let _ = cx.delete_sub(&n).await;
                        }
                    }
                    "GetSub" => {
                        if let Some(n) = mine.last() {
                            let _ = cx.get_sub(n).await;
                        } else {
                            let _ = cx.get_sub(&plain).await;
                        }
                    }
                    // three names shared by all clients are created (each client with its own endpoint)
                    // and deleted over and over: whoever holds a name at the end must be the one the
                    // push registry knows under it
                    "SharedCreate" => {
                        let n = sub_name(1, 900 + r.below(3) as u32);
                        let _ = cx.create_sub_full(&n, &t, 10, Some(&format!("{}/c{}", ENDPOINT, c)), Default::default()).await;
                    }
                    "SharedDelete" => {
                        let n = sub_name(1, 900 + r.below(3) as u32);
                        let _ = cx.delete_sub(&n).await;
                    }
                    "GetRegistered" => {
                        let _ = cx.get_sub(&sub_name(1, 1000 + r.below(registered as u64) as u32)).await;
                    }
                    "DeleteSub" => {
                        if mine.len() > 1 {
                            let n = mine.remove(0);
                            let _ = cx.delete_sub(&n).await;
                        }
                    }
                    // the topic map: listings of a full page while other clients create and delete topics
                    "ListTopics" => {
                        let _ = cx.list_topics("projects/p1", *r.pick(&[0, 7, 1000]), "").await;
                    }
                    "TopicCreate" => {
                        let _ = cx.create_topic(&topic_name(1, 200 + r.below(4) as u32)).await;
                    }
                    "TopicDelete" => {
                        let _ = cx.delete_topic(&topic_name(1, 200 + r.below(4) as u32)).await;
                    }
                    "GetTopic" => {
                        let _ = cx.get_topic(&topic_name(1, 100 + r.below(44) as u32)).await;
                    }
                    "ListTopicSubs" => {
                        let _ = cx.list_topic_subs(&t, 5, "").await;
                    }
                    "ListSubs" => {
                        let _ = cx.list_subs("projects/p1", 5, "").await;
                    }
                    "PullRI" => {
                        let _ = cx.pull(&plain, 5, true).await;
                    }
                    "Publish" => {
                        let _ = cx.publish(&t, &[]).await;
                    }
                    "Ack" => {
                        let _ = cx.ack(&plain, &["1".to_string()]).await;
                    }
                    _ => {}
                }
                sh.outstanding.fetch_sub(1, Ordering::SeqCst);
                sh.completed.fetch_add(1, Ordering::SeqCst);
                *kc.lock().unwrap().entry(kind).or_insert(0) += 1;
                {
                    let mut l = sh.last_calls.lock().unwrap();
                    if let Some(pos) = l.iter().position(|x| *x == label) {
                        l.remove(pos);
                    }
                }
                if r.chance(1, 4) {
                    tokio::task::yield_now().await;
                }
            }
        }));
    }
    for h in handles {
        let _ = h.await;
    }
    push_loop.abort();
    // hooked state vs the API for the shared names (no request is in flight any more)
    tokio::time::sleep(Duration::from_millis(20)).await;
    let reg: std::collections::BTreeMap<String, String> = w.reg.entries().into_iter().map(|(n, c)| (n.to_string(), c.endpoint.clone())).collect();
    for i in 0..3u32 {
        let n = sub_name(1, 900 + i);
        match c0.get_sub(&n).await {
            Ok(v) => {
                if reg.get(&n) != v.push_endpoint.as_ref() {
                    rep.viol("C14", "C14:registry-differs-from-subscription:mt", format!("{} exists with push endpoint {:?} but the push registry holds {:?} for it", n, v.push_endpoint, reg.get(&n)));
                    rep.viol("C11", "C11:registry-differs-from-subscription:mt", format!("{} exists with push endpoint {:?} but the push registry holds {:?} for it", n, v.push_endpoint, reg.get(&n)));
                }
                rep.inc("shared_names_alive_at_the_end");
            }
            Err(_) => {
                if reg.contains_key(&n) {
                    rep.viol("C14", "C14:registry-not-cleared:mt", format!("{} does not exist but the push registry still lists it", n));
                }
            }
        }
        rep.inc("shared_names_checked");
    }
    let walked = hook_total() - walks_before;
    rep.add("hook_points_during_client_phase", walked);
    let kc = kinds_count.lock().unwrap().clone();
    for (k, n) in &kc {
        rep.add(&format!("calls.{}", k), *n);
    }
    rep.add("client_calls_completed", sh.completed.load(Ordering::SeqCst));
    rep.add("registered_push_subscriptions", registered as u64);
    let created = kc.get("CreatePushOk").copied().unwrap_or(0);
    rep.nontrivial = created >= 5 && walked >= 20 && rep.counters.get("registered_ok").copied().unwrap_or(0) >= 100;
    let hist = w.history();
    for o in hist.ops.values() {
        if let Some((_, _, Out::Panic(m))) = &o.ret {
            rep.viol("C17", "C17:panic-in-handler", m.clone());
        }
    }
    rep.key = format!("registered={} interval={} clients={} calls={:?}", registered, interval_ms, n_clients, kc);
    rep.history = hist.abstract_lines(60);
    w.shutdown();
    rep
}

/// Hook points hit so far (the push loop's pulls pass `sub.*` sites): a measure of how often
/// the registry was walked while the clients were busy.
fn hook_total() -> u64 {
    deltio::verif::snapshot().into_iter().map(|(_, v)| v).sum()
}
