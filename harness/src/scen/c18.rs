//! C18 — resource names are parsed canonically (`namescan`).
//!
//! The execution under observation is a call of the public parsing API
//! (`TopicName::try_parse`, `SubscriptionName::try_parse`, `Display`). The
//! oracle is an independent statement of the grammar, not the code's logic.
//! One "episode" is one chunk of the exhaustively enumerated string family
//! (DESIGN 4/C18), or one chunk of random longer strings, or one API round trip
//! batch through the gRPC services.

use super::common::*;
use super::Plan;
use crate::client::*;
use crate::report::*;
use crate::rng::{fnv_str, Rng};
use crate::world::*;
use deltio::subscriptions::SubscriptionName;
use deltio::topics::TopicName;
use std::collections::{BTreeSet, HashMap, HashSet};

const SIGMA: [&str; 6] = ["a", "1", "-", "/", "é", "s"];

fn words(max_len: usize) -> Vec<String> {
    let mut out = vec![String::new()];
    let mut frontier = vec![String::new()];
    for _ in 0..max_len {
        let mut next = Vec::new();
        for w in &frontier {
            for c in SIGMA {
                next.push(format!("{}{}", w, c));
            }
        }
        out.extend(next.iter().cloned());
        frontier = next;
    }
    out
}

fn single_edits(base: &str, subst: &[char], ins: &[char]) -> Vec<String> {
    let cs: Vec<char> = base.chars().collect();
    let mut out = BTreeSet::new();
    for i in 0..cs.len() {
        let mut d = cs.clone();
        d.remove(i);
        out.insert(d.iter().collect::<String>());
        for &s in subst {
            if s != cs[i] {
                let mut d = cs.clone();
                d[i] = s;
                out.insert(d.iter().collect::<String>());
            }
        }
    }
    for i in 0..=cs.len() {
        for &c in ins {
            let mut d = cs.clone();
            d.insert(i, c);
            out.insert(d.iter().collect::<String>());
        }
    }
    out.remove(base);
    out.into_iter().collect()
}

fn middles() -> Vec<String> {
    let mut set = BTreeSet::new();
    for lit in ["/topics/", "/subscriptions/"] {
        set.insert(lit.to_string());
        let singles = single_edits(lit, &['x', '/', 's'], &['x', '/']);
        for s in &singles {
            set.insert(s.clone());
        }
        // double edits: two deletions, and one deletion combined with one substitution
        let cs: Vec<char> = lit.chars().collect();
        for i in 0..cs.len() {
            for j in (i + 1)..cs.len() {
                let d: String = cs.iter().enumerate().filter(|(k, _)| *k != i && *k != j).map(|(_, c)| *c).collect();
                set.insert(d);
                let mut e = cs.clone();
                e[i] = 'x';
                e[j] = 'x';
                set.insert(e.iter().collect());
                let mut sw = cs.clone();
                sw.swap(i, j);
                set.insert(sw.iter().collect());
            }
        }
    }
    // same-length foreign segments and shifted pieces
    for f in [
        "/toqics/", "/TOPICS/", "/topicz/", "xtopics/", "/topicsx", "/topic/s", "ptions/x", "/ptions/", "iptions/", "/subscriptionz/", "/subscription/s",
        "/Subscriptions/", "xsubscriptions/", "/subscriptionsx", "/snapshots/", "/schemas/", "/topics", "topics/", "/subscriptions", "subscriptions/", "/", "//", "",
        "/topics/topics/", "/subscriptions/topics/", "/topics/subscriptions/",
    ] {
        set.insert(f.to_string());
    }
    set.into_iter().collect()
}

fn prefixes() -> Vec<String> {
    single_edits("projects/", &['x', '/', 'P'], &['x', '/'])
}

struct Chunks {
    mids: Vec<String>,
    pres: Vec<String>,
}

impl Chunks {
    fn new() -> Self {
        Chunks { mids: middles(), pres: prefixes() }
    }
    /// chunk kinds: A(mid index), B(prefix index), D(deep literal index 0/1 x first-symbol split 0..7)
    fn exhaustive_count(&self) -> u64 {
        (self.mids.len() + self.pres.len() + 2 * 7) as u64
    }
}

fn random_chunks(p: &EpParams) -> u64 {
    if tier_thorough(p) { 160 } else { 32 }
}

fn api_chunks(p: &EpParams) -> u64 {
    if tier_thorough(p) { 32 } else { 16 }
}

pub fn plan(p: &EpParams) -> Plan {
    let c = Chunks::new();
    Plan {
        episodes: c.exhaustive_count() + random_chunks(p) + api_chunks(p),
        exhaustive: true,
        rule: format!(
            "inputs: exhaustive family P.x.M.y with P in {{projects/}} + {} single-character edits, M in {} variants of /topics/ and /subscriptions/ (all single edits, double deletions/substitutions/swaps, foreign segments), x in Sigma^0..2 (0..3 for the literal segments), y in Sigma^0..3 (0..4 for the literals), Sigma={{a,1,-,/,e-acute,s}}; plus random longer strings with the fixed segments at shifted offsets; plus Create->echo->Get round trips through the gRPC API, including twin names that share a prefix of 8 to ~4000 bytes and differ in the last byte of the ID or of the project (distinct resources, echoed whole). Both parsers see every string; for every accepted string: the grammar's shape, the echo re-parsed (accepted, same value, fixed point, same project and - up to slashes around it - same ID), Display injective. Non-trivial/distinct: distinct strings accepted by at least one parser (hash set per shard, capped at 20000 keys per shard; the uncapped per-shard count is in monitor_counters.accepted_distinct).",
            c.pres.len(),
            c.mids.len()
        ),
    }
}

#[derive(Default)]
struct Scan {
    inputs: u64,
    accepted: HashSet<u64>,
    /// Display -> Debug of the parsed value (must be a function)
    by_display: HashMap<String, String>,
}

fn grammar_ok(s: &str, segment: &str) -> Option<(String, String)> {
    let rest = s.strip_prefix("projects/")?;
    let slash = rest.find('/')?;
    let project = &rest[..slash];
    let after = &rest[slash..];
    let id = after.strip_prefix(segment)?;
    Some((project.to_string(), id.to_string()))
}

fn check_one(s: &str, rep: &mut EpReport, scan: &mut Scan) {
    scan.inputs += 1;
    // topic parser
    if let Some(t) = TopicName::try_parse(s) {
        scan.accepted.insert(fnv_str(s) ^ 1);
        check_accepted("topic", "/topics/", s, &t.to_string(), &format!("{:?}", t), |e| TopicName::try_parse(e).map(|v| (v.to_string(), format!("{:?}", v))), rep, scan);
    }
    if let Some(t) = SubscriptionName::try_parse(s) {
        scan.accepted.insert(fnv_str(s) ^ 2);
        check_accepted("subscription", "/subscriptions/", s, &t.to_string(), &format!("{:?}", t), |e| SubscriptionName::try_parse(e).map(|v| (v.to_string(), format!("{:?}", v))), rep, scan);
    }
}

#[allow(clippy::too_many_arguments)]
fn check_accepted(
    kind: &str,
    segment: &str,
    s: &str,
    echo: &str,
    dbg: &str,
    reparse: impl Fn(&str) -> Option<(String, String)>,
    rep: &mut EpReport,
    scan: &mut Scan,
) {
    // R1: only strings of the grammar's shape are accepted
    match grammar_ok(s, segment) {
        None => {
            let class = if s.starts_with("projects/") { "segment" } else { "prefix" };
            rep.viol("C18", format!("C18:{}:{}", class, kind), format!("{:?} accepted as a {} name ({}) although it does not consist of projects/<project>{}<id>", s, kind, dbg, segment));
        }
        Some((project, _id)) => {
            if project.contains('/') {
                rep.viol("C18", format!("C18:project-with-slash:{}", kind), format!("{:?}", s));
            }
        }
    }
    // R2-R4: the canonical echo is accepted, denotes the same resource, is a fixed point
    match reparse(echo) {
        None => {
            rep.viol("C18", format!("C18:echo-rejected:{}", kind), format!("{:?} is accepted and echoed as {:?}, which the same parser rejects", s, echo));
        }
        Some((echo2, dbg2)) => {
            if dbg2 != dbg {
                rep.viol("C18", format!("C18:echo-different-resource:{}", kind), format!("{:?} -> {} but its echo {:?} -> {}", s, dbg, echo, dbg2));
            }
            if echo2 != echo {
                rep.viol("C18", format!("C18:echo-not-fixed-point:{}", kind), format!("{:?} echoes {:?} which echoes {:?}", s, echo, echo2));
            }
        }
    }
    // R3b: the echo denotes the same resource as `s`, so it must carry the same project and the same
    // ID (slashes around the ID are the one spelling variation the parsers fold): an echo with
    // another ID would make two names that differ in the ID denote one resource
    if let (Some((p1, id1)), Some((p2, id2))) = (grammar_ok(s, segment), grammar_ok(echo, segment)) {
        if p1 != p2 || id1.trim_matches('/') != id2.trim_matches('/') {
            rep.viol("C18", format!("C18:echo-has-another-id:{}", kind), format!("{:?} is accepted and echoed as {:?}: names with different IDs ({:?}, {:?}) denote one resource", s, echo, id1, id2));
        }
    }
    // R5: Display identifies the resource (names that differ denote different resources)
    let key = format!("{}|{}", kind, echo);
    match scan.by_display.get(&key) {
        Some(prev) if prev != dbg => {
            rep.viol("C18", format!("C18:display-collision:{}", kind), format!("two different parsed names share the canonical form {:?}: {} vs {}", echo, prev, dbg));
        }
        Some(_) => {}
        None => {
            if scan.by_display.len() < 200_000 {
                scan.by_display.insert(key, dbg.to_string());
            }
        }
    }
    // canonical names that differ must denote different resources: follows from
    // R3+R4 for canonical inputs; checked directly for the trimmed id as well
    if s == echo {
        if let Some((p, id)) = grammar_ok(s, segment) {
            let want = format!("{}{}{}{}", "projects/", p, segment, id);
            if want != echo {
                rep.viol("C18", format!("C18:canonical-mismatch:{}", kind), format!("{:?}", s));
            }
        }
    }
}

pub fn run(p: &EpParams) -> EpReport {
    let idx = p.get_u64("index").unwrap_or(0);
    let c = Chunks::new();
    let mut rep = EpReport::default();
    let mut scan = Scan::default();
    let n_a = c.mids.len() as u64;
    let n_b = c.pres.len() as u64;
    let ex = c.exhaustive_count();
    if idx < n_a {
        let m = &c.mids[idx as usize];
        let literal = m == "/topics/" || m == "/subscriptions/";
        let xs = words(2);
        let ys = words(3);
        let _ = literal;
        for x in &xs {
            for y in &ys {
                let s = format!("projects/{}{}{}", x, m, y);
                check_one(&s, &mut rep, &mut scan);
            }
        }
        rep.key = format!("A:{}", m);
    } else if idx < n_a + n_b {
        let pre = &c.pres[(idx - n_a) as usize];
        let xs = words(2);
        let ys = words(2);
        for m in ["/topics/", "/subscriptions/"] {
            for x in &xs {
                for y in &ys {
                    let s = format!("{}{}{}{}", pre, x, m, y);
                    check_one(&s, &mut rep, &mut scan);
                }
            }
        }
        rep.key = format!("B:{}", pre);
    } else if idx < ex {
        let k = idx - n_a - n_b;
        let m = if k / 7 == 0 { "/topics/" } else { "/subscriptions/" };
        let part = (k % 7) as usize; // 0: x = "" ; 1..6: x starts with SIGMA[part-1]
        let xs: Vec<String> = words(3).into_iter().filter(|x| if part == 0 { x.is_empty() } else { x.starts_with(SIGMA[part - 1]) }).collect();
        let ys = words(4);
        for x in &xs {
            for y in &ys {
                let s = format!("projects/{}{}{}", x, m, y);
                check_one(&s, &mut rep, &mut scan);
            }
        }
        rep.key = format!("D:{}:{}", m, part);
    } else if idx < ex + random_chunks(p) {
        let mut rng = Rng::new(p.ep_seed);
        let pieces = [
            "projects/", "projects", "/topics/", "/subscriptions/", "topics/", "subscriptions/", "/", "//", "a", "b-1", "é", "p", "t", "s", "_deleted_topic_", "%2F",
            " ", "\u{0}", "projects//", "/topics", "/subscriptions", "ptions/", "x",
        ];
        for _ in 0..60_000 {
            let n = rng.range(1, 7);
            let mut s = String::new();
            if rng.chance(3, 4) {
                s.push_str("projects/");
            }
            for _ in 0..n {
                s.push_str(*rng.pick(&pieces[..]));
            }
            check_one(&s, &mut rep, &mut scan);
        }
        rep.key = format!("R:{}", idx);
    } else {
        // API round trip: Create -> echoed name -> Get
        let rt = episode_runtime(p.ep_seed, true, false, 1);
        let p2 = p.clone();
        let (r, n) = rt.block_on(async move { api_round_trips(&p2).await });
        rep = r;
        scan.inputs += n;
        rep.key = format!("API:{}", idx);
        rep.add("api_round_trips", n);
    }
    rep.nontrivial = !scan.accepted.is_empty() || rep.key.starts_with("API");
    rep.add("inputs", scan.inputs);
    rep.add("accepted_distinct", scan.accepted.len() as u64);
    let mut keys: Vec<u64> = scan.accepted.iter().copied().collect();
    keys.sort();
    keys.truncate(1250);
    rep.extra_keys = keys.into_iter().map(|k| format!("{:x}", k)).collect();
    rep.history = vec![format!("chunk {} : {} inputs, {} accepted (distinct)", rep.key, scan.inputs, scan.accepted.len())];
    rep
}

async fn api_round_trips(p: &EpParams) -> (EpReport, u64) {
    let mut rep = EpReport::default();
    let mut rng = Rng::new(p.ep_seed);
    let w = World::new(transport_of(p), true, None).await;
    let cx = Cx::new(&w, 0);
    let mut n = 0;
    let ids = ["a", "a/", "/a", "a//", "ab", "a/b", "é", "-", "1", "s", "topics", "x/topics/y"];
    let projs = ["p", "é", "-", "1", "pp"];
    for _ in 0..24 {
        let pr = *rng.pick(&projs);
        let id = *rng.pick(&ids);
        let seg = if rng.chance(5, 6) { "/topics/" } else { "/subscriptions/" };
        let s = format!("projects/{}{}{}", pr, seg, id);
        n += 1;
        match cx.create_topic(&s).await {
            Ok(echo) => {
                if grammar_ok(&s, "/topics/").is_none() {
                    rep.viol("C18", "C18:segment:topic", format!("CreateTopic accepted {:?}", s));
                }
                match cx.get_topic(&echo).await {
                    Ok(name2) => {
                        if name2 != echo {
                            rep.viol("C18", "C18:echo-not-fixed-point:topic", format!("CreateTopic({:?}) echoed {:?}; GetTopic of that echoed {:?}", s, echo, name2));
                        }
                    }
                    Err(st) => {
                        rep.viol("C18", if st.code() as i32 == INVALID_ARGUMENT { "C18:echo-rejected:topic".to_string() } else { format!("C18:echo-not-found:topic:code={}", st.code() as i32) }, format!("CreateTopic({:?}) echoed {:?}, GetTopic of the echo fails: {}", s, echo, st.message()));
                    }
                }
                // a subscription on it, by echoed name
                let sub = format!("projects/{}/subscriptions/{}", pr, id);
                if let Ok(v) = cx.create_sub(&sub, &echo, 10).await {
                    match cx.get_sub(&v.name).await {
                        Ok(v2) => {
                            if v2.name != v.name || v2.topic != echo {
                                rep.viol("C18", "C18:echo-different-resource:subscription", format!("created {:?} on {:?}, read back {:?} on {:?}", v.name, echo, v2.name, v2.topic));
                            }
                        }
                        Err(st) => {
                            rep.viol("C18", "C18:echo-rejected:subscription", format!("CreateSubscription({:?}) echoed {:?}; GetSubscription of the echo fails: {}", sub, v.name, st.message()));
                        }
                    }
                    let _ = cx.delete_sub(&v.name).await;
                }
                let _ = cx.delete_topic(&echo).await;
            }
            Err(st) => {
                if st.code() as i32 != INVALID_ARGUMENT && st.code() as i32 != ALREADY_EXISTS {
                    rep.viol("C18", format!("C18:create-status:{}", st.code() as i32), format!("{:?}", s));
                }
            }
        }
    }
    // a name inside a StreamingPull control message: a subscription name that differs from the
    // stream's own in the project (same ID) does not denote the stream's subscription
    {
        let (tp, tq) = ("projects/p/topics/sx", "projects/q/topics/sx");
        let (sp, sq) = ("projects/p/subscriptions/sx", "projects/q/subscriptions/sx");
        let _ = cx.create_topic(tp).await;
        let _ = cx.create_topic(tq).await;
        let _ = cx.create_sub(sp, tp, 10).await;
        let _ = cx.create_sub(sq, tq, 10).await;
        let _ = cx.publish(tq, &[Msg::tagged("q0")]).await;
        let lease: Vec<String> = cx.pull(sq, 1, true).await.map(|d| d.into_iter().map(|d| d.ack_id).collect()).unwrap_or_default();
        if let Ok(mut h) = cx.open_stream(sq, 0).await {
            h.send_raw(deltio::pubsub_proto::StreamingPullRequest { subscription: sp.to_string(), ack_ids: lease.clone(), ..Default::default() });
            w.settle().await;
            w.advance(std::time::Duration::from_secs(1)).await;
            n += 1;
            match h.ended() {
                Some(c) if c == INVALID_ARGUMENT => rep.inc("control_message_naming_another_project_refused"),
                other => rep.viol("C18", "C18:accepted-as-name:StreamingPull.control:other-project", format!("a control message on the stream of {:?} that names {:?} was not refused with INVALID_ARGUMENT (stream: {:?})", sq, sp, other)),
            }
            h.abort();
        }
        for x in [sp, sq] {
            let _ = cx.delete_sub(x).await;
        }
        for x in [tp, tq] {
            let _ = cx.delete_topic(x).await;
        }
    }
    // "accepted only if": every RPC that takes a name refuses a string outside the grammar, whatever
    // else the request carries (also when it carries nothing: no ack IDs, no messages), and answers
    // NOT_FOUND - not OK - for a well-formed name that names nothing
    {
        let bad_subs = ["", "nope", "projects/p/topics/t", "projects/a/b/subscriptions/s", "projects/p/subscriptions", "subscriptions/s", "projects//subscriptions/"];
        let bad_topics = ["", "nope", "projects/p/subscriptions/s", "projects/a/b/topics/t", "projects/p/topics", "topics/t"];
        let none: Vec<String> = vec![];
        let one = vec!["1".to_string()];
        for name in bad_subs.iter().copied().chain(["projects/q/subscriptions/missing"]) {
            let want = if name.starts_with("projects/q/") { NOT_FOUND } else { INVALID_ARGUMENT };
            let mut answers: Vec<(&str, i32)> = Vec::new();
            let code = |r: Result<(), tonic::Status>| r.err().map(|e| e.code() as i32).unwrap_or(0);
            answers.push(("Acknowledge[]", code(cx.ack(name, &none).await)));
            answers.push(("Acknowledge[1]", code(cx.ack(name, &one).await)));
            answers.push(("ModifyAckDeadline[]", code(cx.modify(name, &none, 10).await)));
            answers.push(("ModifyAckDeadline[1]", code(cx.modify(name, &one, 10).await)));
            answers.push(("Pull", code(cx.pull(name, 1, true).await.map(|_| ()))));
            answers.push(("GetSubscription", code(cx.get_sub(name).await.map(|_| ()))));
            answers.push(("DeleteSubscription", code(cx.delete_sub(name).await)));
            for (rpc, c) in answers {
                n += 1;
                if c != want {
                    let class = if want == NOT_FOUND { "missing" } else { "malformed" };
                    rep.viol("C18", format!("C18:accepted-as-name:{}:{}:code={}", rpc, class, c), format!("{} with subscription {:?} answered {} (expected {})", rpc, name, c, want));
                }
            }
            rep.inc("bad_names_through_every_rpc");
        }
        for name in bad_topics.iter().copied().chain(["projects/q/topics/missing"]) {
            let want = if name.starts_with("projects/q/") { NOT_FOUND } else { INVALID_ARGUMENT };
            let code = |r: Result<(), tonic::Status>| r.err().map(|e| e.code() as i32).unwrap_or(0);
            let answers = vec![
                ("Publish[]", code(cx.publish(name, &[]).await.map(|_| ()))),
                ("Publish[1]", code(cx.publish(name, &[Msg::tagged("x")]).await.map(|_| ()))),
                ("GetTopic", code(cx.get_topic(name).await.map(|_| ()))),
                ("ListTopicSubscriptions", code(cx.list_topic_subs(name, 0, "").await.map(|_| ()))),
                ("DeleteTopic", code(cx.delete_topic(name).await)),
            ];
            for (rpc, c) in answers {
                n += 1;
                if c != want {
                    let class = if want == NOT_FOUND { "missing" } else { "malformed" };
                    rep.viol("C18", format!("C18:accepted-as-name:{}:{}:code={}", rpc, class, c), format!("{} with topic {:?} answered {} (expected {})", rpc, name, c, want));
                }
            }
        }
    }
    // names that differ only far from their beginning denote different resources (and long names
    // are echoed whole): twins sharing a prefix of L bytes, in the ID and in the project
    for l in [8usize, 200, 255, 256, 257, 300, 1000 + rng.below(3000) as usize] {
        let stem: String = (0..l).map(|i| (b'a' + ((i * 7 + l) % 26) as u8) as char).collect();
        for in_project in [false, true] {
            let (x, y, sx, sy) = if in_project {
                (format!("projects/{}x/topics/t", stem), format!("projects/{}y/topics/t", stem), format!("projects/{}x/subscriptions/s", stem), format!("projects/{}y/subscriptions/s", stem))
            } else {
                (format!("projects/q/topics/{}x", stem), format!("projects/q/topics/{}y", stem), format!("projects/q/subscriptions/{}x", stem), format!("projects/q/subscriptions/{}y", stem))
            };
            n += 1;
            let Ok(echo_x) = cx.create_topic(&x).await else {
                rep.viol("C18", "C18:long-name-rejected:topic", format!("CreateTopic of a well-formed name of {} bytes was rejected", x.len()));
                continue;
            };
            if echo_x != x {
                rep.viol("C18", "C18:echo-differs:topic", format!("CreateTopic of a well-formed name of {} bytes echoed a different name of {} bytes", x.len(), echo_x.len()));
            }
            if let Ok(got) = cx.get_topic(&y).await {
                rep.viol("C18", "C18:distinct-names-same-resource:topic", format!("GetTopic of a name never created ({} bytes, differs from the created one in its last ID/project byte) answered {} bytes", y.len(), got.len()));
            }
            match cx.create_topic(&y).await {
                Ok(_) => {}
                Err(st) => rep.viol("C18", "C18:distinct-names-same-resource:topic", format!("CreateTopic of the twin name answered {} {}", st.code() as i32, st.message().chars().take(80).collect::<String>())),
            }
            // subscriptions likewise, x on topic x
            match cx.create_sub(&sx, &x, 10).await {
                Ok(v) => {
                    if v.name != sx || v.topic != x {
                        rep.viol("C18", "C18:echo-differs:subscription", format!("CreateSubscription of a well-formed name of {} bytes echoed name of {} bytes on a topic of {} bytes (sent {})", sx.len(), v.name.len(), v.topic.len(), x.len()));
                    }
                    if cx.get_sub(&sy).await.is_ok() {
                        rep.viol("C18", "C18:distinct-names-same-resource:subscription", format!("GetSubscription of a name never created ({} bytes) found a subscription", sy.len()));
                    }
                    match cx.create_sub(&sy, &y, 10).await {
                        Ok(v2) => {
                            if v2.topic != y {
                                rep.viol("C18", "C18:distinct-names-same-resource:topic", format!("the twin subscription is attached to a topic of {} bytes that is not the twin topic", v2.topic.len()));
                            }
                        }
                        Err(st) => rep.viol("C18", "C18:distinct-names-same-resource:subscription", format!("CreateSubscription of the twin name answered {} {}", st.code() as i32, st.message().chars().take(80).collect::<String>())),
                    }
                }
                Err(st) => rep.viol("C18", "C18:long-name-rejected:subscription", format!("CreateSubscription of a well-formed name of {} bytes answered {}", sx.len(), st.code() as i32)),
            }
            // a message published to x reaches x's subscription only
            if cx.publish(&x, &[Msg::tagged("tw")]).await.is_ok() {
                let on_y = cx.pull(&sy, 10, true).await.map(|d| d.len()).unwrap_or(0);
                let on_x = cx.pull(&sx, 10, true).await.map(|d| d.len()).unwrap_or(0);
                if on_y != 0 || on_x != 1 {
                    rep.viol("C18", "C18:distinct-names-same-resource:topic", format!("a message published to the first twin topic: {} on its subscription, {} on the other twin's", on_x, on_y));
                }
            }
            rep.inc("twin_names_checked");
            for nm in [&sx, &sy] {
                let _ = cx.delete_sub(nm).await;
            }
            for nm in [&x, &y] {
                let _ = cx.delete_topic(nm).await;
            }
        }
    }
    w.shutdown();
    (rep, n)
}
