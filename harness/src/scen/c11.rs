//! C11 — deletion keeps topics and subscriptions consistent with each other.
//!
//! A seeded walk over 2 topic names x 3 subscription names with create / delete
//! / delete-then-recreate of both kinds, several subscriptions per topic,
//! publishes, pulls and time advances, checked step by step against the exact
//! reference model (incarnations, attachment, `_deleted_topic_`, messages kept
//! after the topic is gone) plus races of a deletion or creation with a publish
//! in flight. At every quiescent point the cross-view monitor compares
//! ListTopicSubscriptions of every live topic with the set of live
//! subscriptions that report that topic.

use super::common::*;
use super::Plan;
use crate::client::*;
use crate::rec::*;
use crate::report::*;
use crate::rng::Rng;
use crate::seq::Seq;
use crate::world::*;
use std::collections::{BTreeMap, BTreeSet};
use std::time::Duration;

pub fn plan(p: &EpParams) -> Plan {
    let n = if p.engine == "miri" {
        2
    } else if tier_thorough(p) {
        if p.transport == "h2" { 6_000 } else { 40_000 }
    } else {
        3_000
    };
    Plan {
        episodes: n,
        exhaustive: false,
        rule: "seeded walks of 25-50 steps over 2 topic names x 3 subscription names: create/delete/re-create of topics and subscriptions, publishes, pulls with acks, advances past the deadline, and races (DeleteSubscription || Publish, DeleteTopic || Publish, CreateSubscription || Publish, CreateSubscription || DeleteSubscription of the same name - the delete sometimes abandoned by its client, the topic sometimes kept busy -, crossing deletes, requests abandoned after a few turns) resolved by observation; exact reference model after every step and a cross-view check (ListTopicSubscriptions vs ListSubscriptions vs model) at every quiescent point. Non-trivial: >=1 delete followed by re-creation of the same name with a cross-view check after it. Distinct: abstract step sequence.".into(),
    }
}

pub fn run(p: &EpParams) -> EpReport {
    let rt = episode_runtime(p.ep_seed, true, false, 1);
    let p2 = p.clone();
    rt.block_on(async move { episode(&p2).await })
}

async fn cross_view(seq: &mut Seq, rep: &mut EpReport, after: &str) {
    let cx = seq.cx.clone();
    let mut by_topic: BTreeMap<String, BTreeSet<String>> = BTreeMap::new();
    let mut all_subs: BTreeMap<String, String> = BTreeMap::new();
    for pr in ["projects/p1", "projects/p2"] {
        if let Ok((subs, _)) = cx.list_subs(pr, 1000, "").await {
            for s in subs {
                by_topic.entry(s.topic.clone()).or_default().insert(s.name.clone());
                all_subs.insert(s.name, s.topic);
            }
        }
    }
    // model: which subscriptions exist and what topic they report
    let model_subs: BTreeMap<String, String> = seq.m.subs.iter().map(|(n, s)| (n.clone(), if s.topic_deleted { "_deleted_topic_".to_string() } else { s.topic.clone() })).collect();
    if all_subs != model_subs {
        rep.viol("C11", "C11:Q-view:subscriptions-differ-from-model", format!("after {}: ListSubscriptions reports {:?}, model {:?}", after, all_subs, model_subs));
        // seen from C13: the listing does not enumerate exactly the subscriptions that exist
        let (listed, existing): (BTreeSet<&String>, BTreeSet<&String>) = (all_subs.keys().collect(), model_subs.keys().collect());
        if listed != existing {
            rep.viol("C13", "C13:list-differs-from-model:subscriptions", format!("after {}: ListSubscriptions enumerates {:?}, the subscriptions that exist are {:?}", after, listed, existing));
        }
    }
    // every subscription of the model can be read back, with the topic it reports in the listing
    for (name, want_topic) in &model_subs {
        match cx.get_sub(name).await {
            Ok(v) => {
                let want_dl = seq.m.subs[name].deadline_s as i32;
                if v.topic != *want_topic || v.deadline_s != want_dl || v.name != *name {
                    rep.viol("C11", "C11:Q-view:get-differs-from-model", format!("after {}: GetSubscription({}) = {:?}, model topic {:?} deadline {}", after, short(name), v, want_topic, want_dl));
                }
            }
            Err(e) => {
                rep.viol("C11", format!("C11:Q-view:get-fails:code={}", e.code() as i32), format!("after {}: GetSubscription({}) fails with {} although the subscription exists (topic {:?})", after, short(name), e.message(), want_topic));
            }
        }
    }
    let mut live_topics: Vec<String> = Vec::new();
    for pr in ["projects/p1", "projects/p2"] {
        if let Ok((ts, _)) = cx.list_topics(pr, 1000, "").await {
            live_topics.extend(ts);
        }
    }
    for t in &live_topics {
        let mut listed: BTreeSet<String> = BTreeSet::new();
        let mut token = String::new();
        for _ in 0..50 {
            match cx.list_topic_subs(t, 2, &token).await {
                Ok((names, next)) => {
                    listed.extend(names);
                    if next.is_empty() {
                        break;
                    }
                    token = next;
                }
                Err(_) => break,
            }
        }
        let reported = by_topic.get(t).cloned().unwrap_or_default();
        // seen from C13: the two listings disagree about which subscriptions there are (one that its
        // topic lists is missing from its project's listing, or the other way round)
        let missing: Vec<&String> = listed.iter().filter(|n| !all_subs.contains_key(*n)).collect();
        if !missing.is_empty() {
            rep.viol("C13", "C13:listings-disagree", format!("after {}: ListTopicSubscriptions({}) lists {:?}, which ListSubscriptions of the project does not enumerate", after, short(t), missing.iter().map(|s| short(s)).collect::<Vec<_>>()));
        }
        if listed != reported {
            rep.viol(
                "C11",
                "C11:Q-view:topic-list-differs",
                format!("after {}: ListTopicSubscriptions({}) = {:?} but the live subscriptions reporting that topic are {:?}", after, short(t), listed.iter().map(|s| short(s)).collect::<Vec<_>>(), reported.iter().map(|s| short(s)).collect::<Vec<_>>()),
            );
        }
        let model_attached: BTreeSet<String> = seq.m.attached(t).into_iter().collect();
        if listed != model_attached {
            rep.viol(
                "C11",
                "C11:Q-view:attachment-differs-from-model",
                format!("after {}: ListTopicSubscriptions({}) = {:?}, model says {:?}", after, short(t), listed.iter().map(|s| short(s)).collect::<Vec<_>>(), model_attached.iter().map(|s| short(s)).collect::<Vec<_>>()),
            );
        }
    }
    rep.inc("cross_view_checks");
}

async fn episode(p: &EpParams) -> EpReport {
    let mut rep = EpReport::default();
    let mut rng = Rng::new(p.ep_seed);
    let w = World::new(transport_of(p), true, Some(rng.below(100))).await;
    let mut seq = Seq::new(&w);
    let topics = [topic_name(1, 1), topic_name(1, 2)];
    let subs = [sub_name(1, 1), sub_name(1, 2), sub_name(1, 3)];
    let mut shape: Vec<String> = Vec::new();
    let mut deleted_names: BTreeSet<String> = BTreeSet::new();
    let mut recreations_checked = 0u64;
    seq.create_topic(&topics[0]).await;
    seq.create_sub(&subs[0], &topics[0], 10).await;
    let n = rng.range(25, 50);
    for _ in 0..n {
        let t = rng.pick(&topics).clone();
        let s = rng.pick(&subs).clone();
        let step: String;
        match rng.below(21) {
            20 => {
                // two DeleteSubscription calls cross while the topic is kept busy; the moment either of
                // them has returned OK the subscription must be gone from its topic's list (no settling
                // in between: this is what a client sees right after its delete returned)
                let Some(ms) = seq.m.subs.get(&s).cloned() else { continue };
                if ms.topic_deleted || !seq.m.topics.contains_key(&ms.topic) {
                    continue;
                }
                for i in 0..rng.range(0, 30) {
                    let (c, t2) = (Cx::new(&w, 120 + i as u32), ms.topic.clone());
                    tokio::spawn(async move {
                        let _ = c.list_topic_subs(&t2, 0, "").await;
                    });
                }
                let (c1, s1) = (Cx::new(&w, 5), s.clone());
                let first = tokio::spawn(async move { c1.delete_sub(&s1).await });
                for _ in 0..rng.below(6) {
                    tokio::task::yield_now().await;
                }
                let second = Cx::new(&w, 6).delete_sub(&s).await;
                if second.is_ok() {
                    match Cx::new(&w, 7).list_topic_subs(&ms.topic, 1000, "").await {
                        Ok((names, _)) if names.contains(&s) => {
                            rep.viol("C11", "C11:listed-after-delete-returned", format!("DeleteSubscription({}) returned OK and ListTopicSubscriptions({}) issued afterwards still lists it", short(&s), short(&ms.topic)));
                        }
                        _ => {}
                    }
                    if Cx::new(&w, 7).get_sub(&s).await.is_ok() {
                        rep.viol("C11", "C11:found-after-delete-returned", format!("DeleteSubscription({}) returned OK and GetSubscription issued afterwards still finds it", short(&s)));
                    }
                }
                let r1 = first.await;
                w.settle().await;
                if second.is_ok() || matches!(r1, Ok(Ok(()))) {
                    seq.m.delete_sub(&s);
                    deleted_names.insert(s.clone());
                }
                seq.steps.push(format!("crossing delete_sub({}) x2 on a busy topic", short(&s)));
                seq.after_step("DeleteSub").await;
                rep.inc("crossing_deletes_checked_at_once");
                step = "crossing_deletes".into();
            }
            19 => {
                // a DeleteTopic that looked its topic up, was held back (as a request waiting for room in
                // the topic's mailbox is) and reaches the *old* topic's actor only after the topic was
                // deleted by somebody else and created again under the same name: it addresses the old
                // incarnation and must leave the new one alone. The held-back request is the library
                // call the gRPC handler makes, on the handle it looked up.
                if !seq.m.topics.contains_key(&t) {
                    continue;
                }
                let Some(tn) = deltio::topics::TopicName::try_parse(&t) else { continue };
                let Ok(stale) = w.tm.get_topic(&tn) else { continue };
                // (no model checks while the handle is held: like any request in flight it keeps the
                // old topic object alive, and the views are only compared at quiescent points)
                if seq.cx.delete_topic(&t).await.is_err() {
                    continue;
                }
                seq.m.delete_topic(&t);
                deleted_names.insert(t.clone());
                if seq.cx.create_topic(&t).await.is_ok() {
                    seq.m.create_topic(&t);
                    if rng.chance(1, 2) && !seq.m.subs.contains_key(&s) && seq.cx.create_sub(&s, &t, 10).await.is_ok() {
                        seq.m.create_sub(&s, &t, 10, None);
                    }
                }
                seq.steps.push(format!("delete_topic({}) + create_topic({}) while an old handle is held", short(&t), short(&t)));
                let r = tokio::time::timeout(Duration::from_secs(3600), stale.delete()).await;
                seq.steps.push(format!("stale handle of the old incarnation of {}: delete() -> {}", short(&t), match &r { Ok(Ok(())) => "Ok", Ok(Err(_)) => "Err", Err(_) => "no answer" }));
                if r.is_err() {
                    rep.viol("C07", "C07:Q-term:stale-topic-delete", "a delete on the handle of a deleted topic was never answered");
                }
                drop(stale);
                w.settle().await;
                seq.after_step("DeleteTopic").await;
                rep.inc("stale_topic_handle_deletes");
                step = "stale_topic_delete".into();
            }
            17 | 18 => {
                // a control-plane request abandoned after a few scheduler turns: whichever way it
                // went, the views must agree afterwards (resolved by observation)
                let which = rng.below(3);
                let k = rng.below(5);
                let cx = Cx::new(&w, 7);
                let (tp, sp) = (t.clone(), s.clone());
                let applicable = match which {
                    0 => seq.m.topics.contains_key(&t),
                    1 => seq.m.subs.contains_key(&s),
                    _ => !seq.m.subs.contains_key(&s) && seq.m.topics.contains_key(&t),
                };
                if !applicable {
                    continue;
                }
                let task = tokio::spawn(async move {
                    match which {
                        0 => {
                            let _ = cx.delete_topic(&tp).await;
                        }
                        1 => {
                            let _ = cx.delete_sub(&sp).await;
                        }
                        _ => {
                            let _ = cx.create_sub(&sp, &tp, 10).await;
                        }
                    }
                });
                for _ in 0..k {
                    tokio::task::yield_now().await;
                }
                task.abort();
                let _ = task.await;
                w.settle().await;
                match which {
                    0 => {
                        if seq.cx.get_topic(&t).await.is_err() {
                            seq.m.delete_topic(&t);
                            deleted_names.insert(t.clone());
                        }
                    }
                    1 => {
                        if seq.cx.get_sub(&s).await.is_err() {
                            seq.m.delete_sub(&s);
                            deleted_names.insert(s.clone());
                        }
                    }
                    _ => {
                        if seq.cx.get_sub(&s).await.is_ok() {
                            seq.m.create_sub(&s, &t, 10, None);
                        }
                    }
                }
                seq.steps.push(format!("abandoned {} after {} turns", ["delete_topic", "delete_sub", "create_sub"][which as usize], k));
                rep.inc("abandoned_control_requests");
                step = format!("abandoned{}", which);
            }
            16 => {
                // CreateSubscription racing a DeleteSubscription of the same (not yet existing) name:
                // whatever the outcome, the topic's list and the set of live subscriptions must agree
                // afterwards and the topic must keep accepting publishes
                if !seq.m.subs.contains_key(&s) && seq.m.topics.contains_key(&t) {
                    let (c1, c2) = (Cx::new(&w, 5), Cx::new(&w, 6));
                    let (tp, sp, sp2) = (t.clone(), s.clone(), s.clone());
                    // (half of the time the topic is kept busy, so that the create stays between
                    // "registered" and "attached" for a while)
                    if rng.chance(1, 2) {
                        for i in 0..rng.range(8, 30) {
                            let (c, t2) = (Cx::new(&w, 160 + i as u32), t.clone());
                            tokio::spawn(async move {
                                let _ = c.list_topic_subs(&t2, 0, "").await;
                            });
                        }
                    }
                    let a = tokio::spawn(async move { c1.create_sub(&sp, &tp, 10).await });
                    let wait_b = rng.range(1, 4);
                    let b = tokio::spawn(async move {
                        for _ in 0..wait_b {
                            tokio::task::yield_now().await;
                        }
                        c2.delete_sub(&sp2).await
                    });
                    // (a third of the time the deleting client gives up a few turns later: a delete
                    // nobody waits for any more either happens or does not, the create is not its victim)
                    if rng.chance(1, 3) {
                        for _ in 0..(wait_b + rng.below(6)) {
                            tokio::task::yield_now().await;
                        }
                        b.abort();
                        rep.inc("racing_delete_abandoned");
                    }
                    // half of the time a third client creates the name again right away (the first
                    // incarnation may still be on its way out: whatever that deletion still does by
                    // name must not hit the new incarnation)
                    let again = if rng.chance(1, 2) {
                        let (c3, tp3, sp3) = (Cx::new(&w, 7), t.clone(), s.clone());
                        let k = rng.below(7);
                        Some(tokio::spawn(async move {
                            for _ in 0..k {
                                tokio::task::yield_now().await;
                            }
                            c3.create_sub(&sp3, &tp3, 15).await
                        }))
                    } else {
                        None
                    };
                    let (_ra, _rb) = (a.await, b.await);
                    if let Some(h) = again {
                        let _ = h.await;
                        rep.inc("create_delete_create_races");
                    }
                    w.settle().await;
                    // resolve by observation: does the subscription exist now?
                    match seq.cx.get_sub(&s).await {
                        Ok(v) => {
                            if deleted_names.contains(&s) {
                                recreations_checked += 1;
                            }
                            seq.m.create_sub(&s, &t, v.deadline_s, None);
                        }
                        Err(_) => {
                            deleted_names.insert(s.clone());
                        }
                    }
                    seq.steps.push(format!("race create_sub({}) || delete_sub({})", short(&s), short(&s)));
                    // the topic still works
                    seq.publish(&t, 1).await;
                    step = "race_create_delete_sub".into();
                    rep.inc("create_delete_races");
                } else {
                    continue;
                }
            }
            0 | 1 => {
                if !seq.m.topics.contains_key(&t) {
                    if deleted_names.contains(&t) {
                        recreations_checked += 1;
                    }
                    seq.create_topic(&t).await;
                    step = "create_topic".into();
                } else if rng.chance(1, 2) {
                    // the name is taken: a duplicate CreateTopic is refused (ALREADY_EXISTS) and the
                    // topic that holds the name stays the one it was, with its subscriptions
                    let before = seq.cx.list_topic_subs(&t, 1000, "").await.map(|x| x.0);
                    seq.create_topic(&t).await;
                    let after = seq.cx.list_topic_subs(&t, 1000, "").await.map(|x| x.0);
                    match (before, after) {
                        (Ok(b), Ok(a)) if a == b => {}
                        (Ok(b), Ok(a)) => rep.viol("C10", "C10:refused-create-changed-state:CreateTopic", format!("ListTopicSubscriptions({}) was {:?} before a CreateTopic that was refused and is {:?} after it", short(&t), b, a)),
                        (Ok(_), Err(e)) => rep.viol("C10", "C10:refused-create-changed-state:CreateTopic", format!("ListTopicSubscriptions({}) worked before a refused CreateTopic and answers {:?} after it", short(&t), e.code())),
                        _ => {}
                    }
                    rep.inc("duplicate_topic_creates_refused");
                    step = "create_topic_again".into();
                } else {
                    continue;
                }
            }
            2 => {
                if seq.m.topics.contains_key(&t) {
                    seq.delete_topic(&t).await;
                    deleted_names.insert(t.clone());
                    step = "delete_topic".into();
                } else {
                    continue;
                }
            }
            3 | 4 | 5 => {
                if !seq.m.subs.contains_key(&s) && seq.m.topics.contains_key(&t) {
                    if deleted_names.contains(&s) {
                        recreations_checked += 1;
                    }
                    seq.create_sub(&s, &t, *rng.pick(&[10, 15, 10, 15, 0, -5, i32::MIN])).await;
                    step = "create_sub".into();
                } else if seq.m.subs.contains_key(&s) && rng.chance(1, 2) {
                    // the name is taken: a duplicate create (a client that retries, or one that lost
                    // the answer) is refused and changes nothing - whatever topic it names, and also
                    // when the subscription's own topic has been deleted (and created again) meanwhile
                    seq.create_sub(&s, &t, 10).await;
                    rep.inc("duplicate_creates_refused");
                    step = "create_sub_again".into();
                } else {
                    continue;
                }
            }
            6 => {
                if seq.m.subs.contains_key(&s) {
                    seq.delete_sub(&s).await;
                    deleted_names.insert(s.clone());
                    step = "delete_sub".into();
                } else {
                    continue;
                }
            }
            7 | 8 | 9 => {
                seq.publish(&t, rng.range(1, 2) as usize).await;
                step = "publish".into();
            }
            10 | 11 => {
                let ds = seq.pull(&s, 3, true).await;
                if !ds.is_empty() && rng.chance(1, 2) {
                    let ids: Vec<String> = ds.iter().map(|d| d.ack_id.clone()).collect();
                    seq.ack(&s, &ids).await;
                }
                step = "pull".into();
            }
            12 => {
                seq.advance(Duration::from_millis(rng.range(10_000, 17_000))).await;
                step = "advance".into();
            }
            13 => {
                // DeleteSubscription racing a Publish on its topic
                if let Some(ms) = seq.m.subs.get(&s).cloned() {
                    if !ms.topic_deleted && seq.m.topics.contains_key(&ms.topic) {
                        // one publish, or a burst larger than the topic's 16-slot mailbox with the
                        // delete somewhere in the middle (the subscription's removal request then has
                        // to wait for room in the topic's mailbox)
                        let k = if rng.chance(1, 2) { 1 } else { rng.range(17, 30) as usize };
                        let del_pos = rng.below(k as u64 + 1) as usize;
                        let mut pubs = Vec::new();
                        let mut tags: Vec<String> = Vec::new();
                        let mut del = None;
                        for i in 0..=k {
                            if i == del_pos {
                                let (c2, sp) = (Cx::new(&w, 6), s.clone());
                                del = Some(tokio::spawn(async move { c2.delete_sub(&sp).await }));
                            }
                            if i < k {
                                let msgs = seq.fresh_msgs(1);
                                let tg: Vec<String> = msgs.iter().map(|m| m.tag.clone()).collect();
                                tags.extend(tg.iter().cloned());
                                let (c1, tp) = (Cx::new(&w, 100 + i as u32), ms.topic.clone());
                                pubs.push((tg, tokio::spawn(async move { c1.publish(&tp, &msgs).await })));
                            }
                        }
                        let rb = del.unwrap().await;
                        let mut done: Vec<(Vec<String>, Vec<String>)> = Vec::new();
                        for (tg, h) in pubs {
                            if let Ok(Ok(ids)) = h.await {
                                done.push((tg, ids));
                            }
                        }
                        w.settle().await;
                        if let Ok(Ok(())) = rb {
                            seq.m.delete_sub(&s);
                            deleted_names.insert(s.clone());
                        } else {
                            rep.viol("C10", "C10:status:DeleteSubscription", format!("delete of an existing subscription racing a publish answered {:?}", rb.map(|r| r.err().map(|e| e.code()))));
                        }
                        // the topic accepted the publishes in the order of the ids it issued
                        done.sort_by_key(|(_, ids)| ids.first().and_then(|i| i.parse::<u128>().ok()).unwrap_or(0));
                        for (tg, ids) in &done {
                            seq.m.published(&ms.topic, tg, ids);
                        }
                        if k > 1 {
                            rep.inc("delete_inside_publish_burst");
                        }
                        seq.steps.push(format!("race delete_sub({}) || publish({:?})", short(&s), tags));
                        seq.after_step("Publish").await;
                        step = "race_delete_sub".into();
                    } else {
                        continue;
                    }
                } else {
                    continue;
                }
            }
            14 => {
                // DeleteTopic racing a Publish: the topic's subscriptions may or may not get the messages
                if seq.m.topics.contains_key(&t) {
                    let msgs = seq.fresh_msgs(2);
                    let tags: Vec<String> = msgs.iter().map(|m| m.tag.clone()).collect();
                    let attached = seq.m.attached(&t);
                    let (c1, c2) = (Cx::new(&w, 5), Cx::new(&w, 6));
                    let (tp, tp2, m2) = (t.clone(), t.clone(), msgs.clone());
                    let a = tokio::spawn(async move { c1.publish(&tp, &m2).await });
                    let b = tokio::spawn(async move { c2.delete_topic(&tp2).await });
                    let (ra, rb) = (a.await, b.await);
                    w.settle().await;
                    if let Ok(Ok(ids)) = &ra {
                        for (i, id) in ids.iter().enumerate() {
                            if let Some(tag) = tags.get(i) {
                                seq.m.all_ids.insert(id.clone(), tag.clone());
                            }
                        }
                        for sname in &attached {
                            if let Some(ms) = seq.m.subs.get_mut(sname) {
                                for tg in &tags {
                                    ms.uncertain.insert(tg.clone());
                                }
                            }
                        }
                    }
                    if let Ok(Ok(())) = rb {
                        seq.m.delete_topic(&t);
                        deleted_names.insert(t.clone());
                    }
                    seq.steps.push(format!("race delete_topic({}) || publish({:?})", short(&t), tags));
                    seq.after_step("Publish").await;
                    step = "race_delete_topic".into();
                } else {
                    continue;
                }
            }
            _ => {
                // CreateSubscription racing a Publish: the new subscription may or may not get the messages
                if !seq.m.subs.contains_key(&s) && seq.m.topics.contains_key(&t) {
                    let msgs = seq.fresh_msgs(1);
                    let tags: Vec<String> = msgs.iter().map(|m| m.tag.clone()).collect();
                    let (c1, c2) = (Cx::new(&w, 5), Cx::new(&w, 6));
                    let (tp, tp2, sp, m2) = (t.clone(), t.clone(), s.clone(), msgs.clone());
                    let a = tokio::spawn(async move { c1.publish(&tp, &m2).await });
                    let b = tokio::spawn(async move { c2.create_sub(&sp, &tp2, 10).await });
                    let (ra, rb) = (a.await, b.await);
                    w.settle().await;
                    if let Ok(Ok(ids)) = &ra {
                        seq.m.published(&t, &tags, ids);
                    }
                    if let Ok(Ok(_)) = rb {
                        if deleted_names.contains(&s) {
                            recreations_checked += 1;
                        }
                        seq.m.create_sub(&s, &t, 10, None);
                        if ra.as_ref().map(|r| r.is_ok()).unwrap_or(false) {
                            for tg in &tags {
                                seq.m.subs.get_mut(&s).unwrap().uncertain.insert(tg.clone());
                            }
                        }
                    }
                    seq.steps.push(format!("race create_sub({}) || publish({:?})", short(&s), tags));
                    seq.after_step("Publish").await;
                    step = "race_create_sub".into();
                } else {
                    continue;
                }
            }
        }
        shape.push(step.clone());
        seq.flush(&mut rep);
        cross_view(&mut seq, &mut rep, &step).await;
        if !rep.violations.is_empty() {
            break;
        }
    }
    // subscriptions of deleted topics keep serving what they hold: drain everything past the deadlines
    if rep.violations.is_empty() {
        let latest = seq.m.subs.values().flat_map(|s| s.leases.values()).map(|l| l.hi).max().unwrap_or(0);
        seq.advance_to(latest.max(seq.now()) + MS).await;
        let names: Vec<String> = seq.m.subs.keys().cloned().collect();
        for s in names {
            let mut guard = 0;
            while seq.m.certain_count(&s) > 0 && guard < 10 {
                if seq.pull(&s, 100, true).await.is_empty() {
                    break;
                }
                guard += 1;
            }
        }
        seq.flush(&mut rep);
    }
    rep.add("recreations_with_cross_view", recreations_checked);
    rep.nontrivial = recreations_checked > 0;
    rep.key = shape.join(",");
    rep.history = seq.history(200);
    w.shutdown();
    rep
}
