//! C14 — push subscriptions deliver at least once until the endpoint accepts
//! (fault enumeration over per-attempt endpoint behaviours), and the push half
//! of C09 (POST bodies carry the published data, attributes and ID).

use super::common::*;
use super::Plan;
use crate::client::*;
use crate::endpoint::*;
use crate::rec::*;
use crate::report::*;
use crate::rng::Rng;
use crate::world::*;
use std::collections::{BTreeMap, HashMap};
use std::sync::Arc;
use std::time::Duration;

const DEADLINE_S: u64 = 60;
const LATE_S: u64 = 90;
const INTERVAL_S: u64 = 1;
const MARGIN_S: u64 = 30;

pub fn alphabet() -> Vec<Behaviour> {
    let mut v: Vec<Behaviour> = [200u16, 201, 202, 204, 102, 100, 203, 205, 301, 400, 404, 429, 500, 503].iter().map(|s| Behaviour::Status(*s)).collect();
    v.push(Behaviour::ResetAfterRequest);
    v.push(Behaviour::Refuse);
    v.push(Behaviour::Late(LATE_S, 200));
    v
}

fn max_len(p: &EpParams) -> u32 {
    p.get_u64("maxlen").map(|v| v as u32).unwrap_or(if tier_thorough(p) { 3 } else { 2 })
}

fn n_sequences(l: u32) -> u64 {
    let a = alphabet().len() as u64;
    (0..=l).map(|i| a.pow(i)).sum()
}

fn sequence(mut idx: u64, l: u32) -> Vec<Behaviour> {
    let alpha = alphabet();
    let a = alpha.len() as u64;
    let mut len = 0;
    loop {
        let n = a.pow(len);
        if idx < n {
            break;
        }
        idx -= n;
        len += 1;
        if len > l {
            return vec![];
        }
    }
    let mut out = Vec::new();
    for _ in 0..len {
        out.push(alpha[(idx % a) as usize].clone());
        idx /= a;
    }
    out
}

const SPECIALS: u64 = 18;

pub fn plan(p: &EpParams) -> Plan {
    let l = max_len(p);
    Plan {
        episodes: n_sequences(l) * 2 + SPECIALS,
        exhaustive: true,
        rule: format!(
            "fault sequences: every per-attempt endpoint behaviour sequence of length <= {} over {} behaviours (200 201 202 204 102 100 203 205 301 400 404 429 500 503 reset-after-request reset-on-accept answer-{}s-late) followed by 200, once with 1 message and once with 3 messages (sequence rotated per message), plus {} special episodes (closed port first, deletion while failing, always-late endpoint, five episodes in which a unary puller competes with the push rounds for the same subscription, two in which the endpoint never sends a final answer six times in a row, two in which it accepts after 20-25 s, well inside the ack deadline, two in which the answers of one round come back in another order than its POSTs went out, and two in which a page of 60 messages is accepted in one and the same instant). Push interval {} s, ack deadline {} s. Non-trivial: >=1 POST answered by each behaviour of the sequence. Distinct: the behaviour sequence x message count.",
            l, alphabet().len(), LATE_S, SPECIALS, INTERVAL_S, DEADLINE_S
        ),
    }
}

pub fn run(p: &EpParams) -> EpReport {
    let rt = episode_runtime(p.ep_seed, true, true, 1);
    let p2 = p.clone();
    rt.block_on(async move { episode(&p2).await })
}

fn push_msg(tag: &str, i: usize) -> Msg {
    let mut attrs = HashMap::new();
    attrs.insert("tag".to_string(), tag.to_string());
    match i % 3 {
        0 => {
            attrs.insert("k".to_string(), "v".to_string());
        }
        1 => {
            attrs.insert("clé".to_string(), "värde ✓".to_string());
            // characters beyond the Basic Multilingual Plane (surrogate pairs in JSON escapes)
            attrs.insert("\u{1F3AF}".to_string(), "mood \u{1F600} \u{10348} \u{1D11E}".to_string());
            attrs.insert("empty".to_string(), String::new());
        }
        _ => {}
    }
    let mut data = format!("T:{}|", tag).into_bytes();
    if i % 2 == 1 {
        data.extend((0..=255u8).collect::<Vec<u8>>());
    }
    if i % 5 == 2 {
        // a payload far beyond any internal block size
        data.extend((0..70_000usize).map(|k| (k * 7 % 251) as u8));
    }
    Msg { tag: tag.to_string(), data, attrs }
}

async fn episode(p: &EpParams) -> EpReport {
    let mut rep = EpReport::default();
    let idx = p.get_u64("index").unwrap_or(0);
    let l = max_len(p);
    let nseq = n_sequences(l);
    let mut rng = Rng::new(p.ep_seed);
    let w = World::new(Transport::Direct, true, Some(rng.below(100))).await;
    let cx = Cx::new(&w, 0);
    let push_loop = tokio::spawn(w.app.push_loop(Duration::from_secs(INTERVAL_S)).run());
    let t = topic_name(1, 1);
    let sp = sub_name(1, 1);
    let s_pull = sub_name(1, 2);
    cx.create_topic(&t).await.ok();

    let special = if idx >= nseq * 2 { Some(idx - nseq * 2) } else { None };
    let seq: Vec<Behaviour> = match special {
        None => sequence(idx % nseq, l),
        Some(_) => vec![],
    };
    // specials 16/17: a whole page of 60 messages whose POSTs are all accepted in the same instant
    // (20 s after they went out): sixty acknowledgements reach the subscription at once
    let page_at_once = matches!(special, Some(16) | Some(17));
    let n_msgs: usize = if page_at_once { 60 } else if special.is_some() { 2 } else if idx < nseq { 1 } else { 3 };

    // special 0/1: the port is closed for the first rounds (connection refused), then comes up
    let closed_first = matches!(special, Some(0) | Some(1));
    let mut reserved_port = None;
    let ep: Option<Endpoint>;
    let url: String;
    if closed_first {
        let l = std::net::TcpListener::bind("127.0.0.1:0").expect("bind");
        let port = l.local_addr().unwrap().port();
        drop(l);
        reserved_port = Some(port);
        url = format!("http://127.0.0.1:{}/push", port);
        ep = None;
    } else {
        let e = Endpoint::start(&w, "/push").await.expect("endpoint");
        url = e.url.clone();
        ep = Some(e);
    }
    // (half of the subscriptions carry endpoint attributes in their push config: they configure the
    // endpoint and are no part of any message)
    let mut endpoint_attrs = HashMap::new();
    if rng.chance(1, 2) {
        endpoint_attrs.insert("x-goog-version".to_string(), "v1".to_string());
        endpoint_attrs.insert("audience".to_string(), "someone".to_string());
        rep.inc("push_config_with_endpoint_attributes");
    }
    if cx.create_sub_full(&sp, &t, DEADLINE_S as i32, Some(&url), endpoint_attrs).await.is_err() {
        rep.inconclusive("create push subscription failed");
        return rep;
    }
    cx.create_sub(&s_pull, &t, 10).await.ok();

    let tags: Vec<String> = (0..n_msgs).map(|i| format!("p{}", i)).collect();
    let msgs: Vec<Msg> = tags.iter().enumerate().map(|(i, tg)| push_msg(tg, i + (idx as usize))).collect();
    if let Some(e) = &ep {
        for (i, tg) in tags.iter().enumerate() {
            let mut s = seq.clone();
            if !s.is_empty() {
                let r = i % s.len();
                s.rotate_left(r);
            }
            e.set_script(tg, s);
        }
        // special 2/3: a poison message that always fails, then the subscription is deleted
        if matches!(special, Some(2) | Some(3)) {
            e.set_script("p1", vec![Behaviour::Status(500); 400]);
        }
        // specials 5-9: a unary puller competes with the push rounds for the same subscription
        // (C03: a message leased to one of them is not handed to the other)
        if matches!(special, Some(5..=9)) {
            e.set_script("p0", vec![Behaviour::Status(500), Behaviour::Status(503), Behaviour::Status(500)]);
            e.set_script("p1", vec![Behaviour::ResetAfterRequest, Behaviour::Status(429)]);
        }
        // specials 10/11: the endpoint accepts the connection, sends an interim 100 and never a
        // final answer, six times in a row: the message must keep being POSTed after every deadline
        if matches!(special, Some(10) | Some(11)) {
            e.set_script("p0", vec![Behaviour::Status(100); 6]);
        }
        // specials 12/13: the endpoint accepts, but only after 20 s (well inside the 60 s ack
        // deadline): one POST per message, nothing after the answer
        if matches!(special, Some(12) | Some(13)) {
            e.set_script("p0", vec![Behaviour::Late(20, 200); 6]);
            e.set_script("p1", vec![Behaviour::Late(25, 204); 6]);
        }
        // specials 14/15: answers that come back in another order than the POSTs went out: the first
        // message is accepted after 20 s, the second is refused at once (then accepted)
        if matches!(special, Some(14) | Some(15)) {
            e.set_script("p0", vec![Behaviour::Late(20, 200); 6]);
            e.set_script("p1", vec![Behaviour::Status(500), Behaviour::Status(200)]);
        }
        if page_at_once {
            // (the POSTs of one round go out 5 ms apart: a fixed delay per POST would spread the
            // answers in the same way, so they are all held until one instant 20 s from now)
            let at = w.vt() + 20 * SEC;
            for tg in &tags {
                e.set_script(tg, vec![Behaviour::HeldUntil(at, 200), Behaviour::Status(200)]);
            }
            rep.inc("pages_accepted_in_one_instant");
        }
        // special 4: everything is late for ever (never accepted in time)
        if special == Some(4) {
            e.set_script("p0", vec![Behaviour::Late(LATE_S, 200); 6]);
        }
    }
    let ids = match cx.publish(&t, &msgs).await {
        Ok(ids) => ids,
        Err(_) => {
            rep.inconclusive("publish failed");
            return rep;
        }
    };
    let id_of: HashMap<String, String> = tags.iter().cloned().zip(ids.iter().cloned()).collect();

    let mut ep = ep;
    if closed_first {
        // several rounds against a closed port
        for _ in 0..5 {
            tokio::time::sleep(Duration::from_secs(INTERVAL_S)).await;
        }
        rep.inc("rounds_against_closed_port");
        // bring the endpoint up on the reserved port
        let port = reserved_port.unwrap();
        match start_on_port(&w, port).await {
            Some(e) => ep = Some(e),
            None => {
                rep.inconclusive("could not re-bind the reserved port");
                push_loop.abort();
                return rep;
            }
        }
    }
    let e = ep.as_ref().unwrap();

    // Let time pass until every message has an accepted-in-time answer (or the cap).
    let competing = matches!(special, Some(5..=9));
    let mut pulled_by_competitor: Vec<(Vt, Delivery)> = Vec::new();
    let attempts_cap = seq.len() as u64 + 2;
    let cap_s = attempts_cap * (LATE_S + DEADLINE_S + 2 * INTERVAL_S + MARGIN_S) + 120;
    let mut elapsed = 0;
    let poison = matches!(special, Some(2) | Some(3));
    loop {
        if competing && elapsed < 40 {
            // a competing consumer pulls (and never acks): whatever it gets is leased to it for 60 s
            tokio::time::sleep(Duration::from_millis(rng.range(100, 900))).await;
            if let Ok(ds) = Cx::new(&w, 7).pull(&sp, 1, true).await {
                let now = w.vt();
                for d in ds {
                    pulled_by_competitor.push((now, d));
                }
            }
        }
        tokio::time::sleep(Duration::from_secs(INTERVAL_S)).await;
        elapsed += INTERVAL_S;
        let posts = e.posts();
        let all_done = tags.iter().all(|tg| (poison && tg == "p1") || posts.iter().any(|r| r.tag == *tg && accepted_in_time(r)));
        if (all_done && !(competing && elapsed < 200)) || elapsed >= cap_s {
            break;
        }
        if special == Some(4) && elapsed > 6 * (LATE_S + 10) {
            // after six late answers the script falls back to 200
        }
    }
    // Special 2/3: delete while a message keeps failing.
    let mut t_deleted: Option<Vt> = None;
    if poison {
        // make sure the poison message was POSTed at least twice
        for _ in 0..10 {
            if e.posts().iter().filter(|r| r.tag == "p1").count() >= 2 {
                break;
            }
            tokio::time::sleep(Duration::from_secs(INTERVAL_S)).await;
        }
        if cx.delete_sub(&sp).await.is_ok() {
            t_deleted = Some(w.vt());
        }
    }
    // Quiet period: five more virtual minutes.
    tokio::time::sleep(Duration::from_secs(300)).await;
    w.barrier().await;
    let end_vt = w.vt();
    let posts = e.posts();

    // ---- oracle -----------------------------------------------------------------------------------
    let mut seen_behaviours: BTreeMap<String, u64> = BTreeMap::new();
    for r in &posts {
        *seen_behaviours.entry(r.behaviour.name()).or_insert(0) += 1;
        rep.inc("posts_observed");
        // P1: well-formed, names the push subscription, carries the published record
        if !r.json_ok {
            rep.viol("C14", "C14:post-not-json", format!("POST #{} body is not the expected JSON", r.attempt));
            continue;
        }
        if r.sub != sp {
            let sig = if r.sub == s_pull { "C14:post-names-pull-subscription" } else { "C14:post-names-wrong-subscription" };
            rep.viol("C14", sig, format!("POST names {:?}, expected {:?}", r.sub, sp));
        }
        let Some(orig) = msgs.iter().find(|m| m.tag == r.tag) else {
            rep.viol("C14", "C14:post-unknown-message", format!("POST carries data that matches no published message (tag {:?})", r.tag));
            continue;
        };
        if !r.data_ok || r.data != orig.data {
            rep.viol("C09", "C09:I2:push-data-differs", format!("POST of {} carries {} data bytes, published {}", r.tag, r.data.len(), orig.data.len()));
            rep.viol("C14", "C14:post-data-differs", format!("POST of {}: base64 data does not decode to the published bytes", r.tag));
        }
        let want_id = id_of.get(&r.tag).cloned().unwrap_or_default();
        if r.msg_id != want_id || r.msg_id_dupe != want_id {
            rep.viol("C09", "C09:I1:push-message-id-differs", format!("POST of {} carries ids {:?}/{:?}, Publish returned {:?}", r.tag, r.msg_id, r.msg_id_dupe, want_id));
            rep.viol("C14", "C14:post-id-differs", format!("POST of {} carries ids {:?}/{:?}, Publish returned {:?}", r.tag, r.msg_id, r.msg_id_dupe, want_id));
        }
        if r.attrs != orig.attrs {
            rep.viol("C09", "C09:I2:push-attributes-differ", format!("POST of {} carries attributes {:?}, published {:?}", r.tag, sorted(&r.attrs), sorted(&orig.attrs)));
        } else {
            rep.inc("post_attributes_equal");
        }
    }
    for tg in &tags {
        let mine: Vec<&PostRec> = posts.iter().filter(|r| r.tag == *tg).collect();
        if mine.is_empty() {
            rep.viol("C14", "C14:never-posted", format!("message {} was never POSTed in {} virtual seconds", tg, end_vt / SEC));
            continue;
        }
        if mine.len() >= 2 {
            rep.inc("messages_posted_more_than_once");
        }
        // first accepted-in-time answer
        let first_ok = mine.iter().position(|r| accepted_in_time(r));
        for (k, r) in mine.iter().enumerate() {
            // P3: nothing after an accepted answer given within the deadline
            if let Some(a) = first_ok {
                if k > a && r.vt_begin > mine[a].vt_answer.unwrap_or(0) {
                    let st = mine[a].behaviour.name();
                    rep.viol("C14", format!("C14:repost-after-accept:status={}", st), format!("message {} was POSTed again at {} ms although attempt {} had been answered {} at {} ms", tg, r.vt_begin / MS, a, st, mine[a].vt_answer.unwrap_or(0) / MS));
                }
            }
            // P4 (seen from C04 and C03): a POST that has not been answered yet is a delivery whose lease
            // (the subscription's ack deadline, 60 s) is running; the message is not handed out again
            // before that lease ends. (5 s of slack: the lease began when the push round pulled the
            // page, a little before the POST itself.)
            if !competing {
                if let Some(nx) = mine.get(k + 1) {
                    let unanswered = r.vt_answer.map(|a| a > nx.vt_begin).unwrap_or(true);
                    if unanswered && nx.vt_begin + 5 * SEC < r.vt_begin + DEADLINE_S * SEC {
                        rep.viol("C04", "C04:early:push-repost-while-unanswered", format!("message {} was POSTed at {} ms, that POST was still unanswered, and it was POSTed again at {} ms - {} s into an ack deadline of {} s", tg, r.vt_begin / MS, nx.vt_begin / MS, (nx.vt_begin - r.vt_begin) / SEC, DEADLINE_S));
                        rep.viol("C03", "C03:X3:lease-overlap:push-repost", format!("message {} was POSTed at {} ms and again at {} ms while the first POST was unanswered and its lease ({} s) was running", tg, r.vt_begin / MS, nx.vt_begin / MS, DEADLINE_S));
                    }
                }
            }
            // P2: after a failure, another POST follows
            // (with a competing puller a failed message may sit in the puller's lease for 60 s: no timing claim)
            if !competing && first_ok.map(|a| k < a).unwrap_or(true) && !accepted_in_time(r) {
                let deleted_before = t_deleted.map(|d| d <= failure_known(r).unwrap_or(u64::MAX)).unwrap_or(false);
                if let Some(f) = failure_known(r) {
                    let limit = f + (2 * INTERVAL_S + MARGIN_S) * SEC;
                    let next = mine.get(k + 1);
                    match next {
                        Some(n) => {
                            let gap = n.vt_begin as i64 - f as i64;
                            rep.obs("repost_gap_ms", gap / MS as i64);
                            if n.vt_begin > limit && !deleted_before {
                                rep.viol("C14", format!("C14:reposted-late:after={}", r.behaviour.name()), format!("message {}: failure known at {} ms, next POST only at {} ms", tg, f / MS, n.vt_begin / MS));
                            }
                        }
                        None => {
                            if end_vt > limit && !deleted_before && t_deleted.is_none() {
                                // seen from C01: a message no consumer has accepted is not being redelivered
                                rep.viol("C01", "C01:push-message-not-redelivered", format!("message {}: attempt {} was refused ({}) and it was never POSTed (or made available) again", tg, k, r.behaviour.name()));
                                rep.viol("C14", format!("C14:not-reposted:after={}", r.behaviour.name()), format!("message {}: attempt {} failed ({}) at {} ms and no further POST arrived until {} ms", tg, k, r.behaviour.name(), f / MS, end_vt / MS));
                            } else if t_deleted.is_none() {
                                rep.inconclusive("failure too close to the end of the episode");
                            }
                        }
                    }
                } else if is_marginal(r) {
                    rep.inconclusive("answer inside the deadline margin");
                }
            }
        }
    }
    // C03 across consumer kinds: while the competing puller holds a lease (60 s, never acked or
    // nacked) the push rounds must not POST that message, and a message whose POST is pending
    // must not be handed to the puller. Margins absorb the lumpy clock.
    if competing {
        rep.add("competitor_deliveries", pulled_by_competitor.len() as u64);
        for (t_pull, d) in &pulled_by_competitor {
            let lease_end = t_pull + DEADLINE_S * SEC;
            for r in posts.iter().filter(|r| r.tag == d.tag) {
                if r.vt_begin > t_pull + 3 * SEC && r.vt_begin + 5 * SEC < lease_end {
                    rep.viol("C03", "C03:X3:lease-overlap:push-vs-pull", format!("{} was handed to a Pull at {} ms (lease until {} ms) and POSTed to the push endpoint at {} ms", d.tag, t_pull / MS, lease_end / MS, r.vt_begin / MS));
                }
                // POST in flight / just failed: the nack or ack ends the push lease at the answer
                if let Some(a) = r.vt_answer {
                    if r.vt_begin + 3 * SEC < *t_pull && *t_pull + 3 * SEC < a {
                        rep.viol("C03", "C03:X3:lease-overlap:pull-during-post", format!("{} was handed to a Pull at {} ms while its POST (begun {} ms) was still unanswered (answered {} ms)", d.tag, t_pull / MS, r.vt_begin / MS, a / MS));
                    }
                }
            }
        }
        let mut ids = std::collections::BTreeSet::new();
        for (_, d) in &pulled_by_competitor {
            if !ids.insert(d.ack_id.clone()) {
                rep.viol("C03", "C03:X1:ack-id-reused", format!("ack id {} handed to the competing puller twice", d.ack_id));
            }
        }
    }
    // P5: pushing stops when the subscription is deleted
    if let Some(d) = t_deleted {
        let limit = d + (INTERVAL_S + MARGIN_S) * SEC;
        let late: Vec<&PostRec> = posts.iter().filter(|r| r.vt_begin > limit).collect();
        if !late.is_empty() {
            rep.viol("C14", "C14:post-after-delete", format!("{} POST(s) began more than {} s after DeleteSubscription returned", late.len(), INTERVAL_S + MARGIN_S));
        }
        if w.reg.entries().iter().any(|(n, _)| n.to_string() == sp) {
            rep.viol("C14", "C14:registry-not-cleared", "the push registry still lists the deleted subscription");
        }
        rep.inc("delete_while_failing_checked");
    } else {
        // after acceptance nothing is left to pull
        match cx.pull(&sp, 100, true).await {
            Ok(ds) if !ds.is_empty() => {
                let leftover: Vec<String> = ds.iter().map(|d| d.tag.clone()).collect();
                let unaccepted: Vec<&String> = leftover.iter().filter(|tg| !posts.iter().any(|r| &r.tag == *tg && accepted_in_time(r))).collect();
                if unaccepted.len() != leftover.len() {
                    rep.viol("C14", "C14:accepted-message-still-queued", format!("Pull on the push subscription returned {:?} after they had been accepted", leftover));
                }
            }
            _ => {}
        }
    }
    // P4: the pull-only sibling is intact and was never pushed (checked per POST above)
    if let Some(st) = w.stats(&s_pull).await {
        if st.backlog + st.outstanding != n_msgs {
            rep.viol("C01", "C01:push-sibling-lost-messages", format!("pull-only sibling holds {} messages, expected {}", st.backlog + st.outstanding, n_msgs));
        }
    }

    let seq_names: Vec<String> = seq.iter().map(|b| b.name()).collect();
    let all_seen = seq.iter().all(|b| seen_behaviours.contains_key(&b.name()));
    rep.nontrivial = !posts.is_empty() && all_seen;
    if !all_seen {
        rep.inc("sequence_not_fully_exercised");
    }
    for (b, n) in &seen_behaviours {
        rep.add(&format!("answers.{}", b), *n);
    }
    rep.key = format!("seq={:?} msgs={} special={:?}", seq_names, n_msgs, special);
    rep.history = w.history().abstract_lines(200);
    push_loop.abort();
    w.shutdown();
    rep
}

fn sorted(m: &HashMap<String, String>) -> BTreeMap<&String, &String> {
    m.iter().collect()
}

/// The answer was an accepted status, given well within the ack deadline.
fn accepted_in_time(r: &PostRec) -> bool {
    match (&r.behaviour, r.vt_answer) {
        (Behaviour::Status(s), Some(a)) | (Behaviour::Late(_, s), Some(a)) | (Behaviour::HeldUntil(_, s), Some(a)) if matches!(s, 102 | 200 | 201 | 202 | 204) => a.saturating_sub(r.vt_begin) < (DEADLINE_S - MARGIN_S) * SEC,
        _ => false,
    }
}

fn is_marginal(r: &PostRec) -> bool {
    match (&r.behaviour, r.vt_answer) {
        (Behaviour::Status(s), Some(a)) if matches!(s, 102 | 200 | 201 | 202 | 204) => {
            let d = a.saturating_sub(r.vt_begin);
            d >= (DEADLINE_S - MARGIN_S) * SEC && d <= (DEADLINE_S + MARGIN_S - 1) * SEC
        }
        _ => false,
    }
}

/// When the failure of this attempt becomes known to the server: the answer
/// instant for an immediate failure, the lease expiry for silence.
fn failure_known(r: &PostRec) -> Option<Vt> {
    match &r.behaviour {
        Behaviour::Status(s) if *s < 200 => Some(r.vt_begin + DEADLINE_S * SEC),
        Behaviour::Status(s) if matches!(s, 200 | 201 | 202 | 204) => None,
        Behaviour::Status(_) | Behaviour::ResetAfterRequest | Behaviour::Refuse => r.vt_answer,
        Behaviour::Late(d, _) if *d >= DEADLINE_S + MARGIN_S => Some(r.vt_begin + DEADLINE_S * SEC),
        Behaviour::Late(..) | Behaviour::LateMs(..) | Behaviour::HeldUntil(..) => None,
    }
}

async fn start_on_port(w: &Arc<World>, port: u16) -> Option<Endpoint> {
    // Endpoint::start binds an ephemeral port; for the closed-port special we need the reserved one.
    crate::endpoint::Endpoint::start_on(w, "/push", port).await.ok()
}
