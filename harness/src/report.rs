//! Episode and shard reports (what a run observed), merged by the Python runner.

use serde::Serialize;
use serde_json::{json, Value};
use std::collections::{BTreeMap, BTreeSet};

#[derive(Clone, Debug, Serialize)]
pub struct Violation {
    pub property: String,
    /// Stable signature `<property>:<rule>:<shape>` (DESIGN B.4).
    pub sig: String,
    pub detail: String,
}

/// Parameters that identify one episode exactly (replayable).
#[derive(Clone, Debug, Serialize)]
pub struct EpParams {
    pub scenario: String,
    pub ep_seed: u64,
    pub transport: String,
    pub tier: String,
    pub engine: String,
    pub extra: BTreeMap<String, String>,
}

impl EpParams {
    pub fn get(&self, k: &str) -> Option<&str> {
        self.extra.get(k).map(|s| s.as_str())
    }
    pub fn get_u64(&self, k: &str) -> Option<u64> {
        self.get(k).and_then(|s| s.parse().ok())
    }
}

#[derive(Default)]
pub struct EpReport {
    /// Did the property's trigger occur (Appendix C)?
    pub nontrivial: bool,
    /// Distinctness key of the episode.
    pub key: String,
    pub violations: Vec<Violation>,
    pub inconclusive: Vec<String>,
    pub counters: BTreeMap<String, u64>,
    pub minmax: BTreeMap<String, (i64, i64)>,
    /// Abstracted history (kept for samples and replay files).
    pub history: Vec<String>,
    pub extra_keys: Vec<String>,
}

impl EpReport {
    pub fn viol(&mut self, property: &str, sig: impl Into<String>, detail: impl Into<String>) {
        let sig = sig.into();
        // one violation per signature per episode is enough
        if self.violations.iter().any(|v| v.sig == sig) {
            return;
        }
        self.violations.push(Violation {
            property: property.to_string(),
            sig,
            detail: detail.into(),
        });
    }
    pub fn inc(&mut self, k: &str) {
        self.add(k, 1);
    }
    pub fn add(&mut self, k: &str, n: u64) {
        *self.counters.entry(k.to_string()).or_insert(0) += n;
    }
    pub fn obs(&mut self, k: &str, v: i64) {
        let e = self.minmax.entry(k.to_string()).or_insert((v, v));
        e.0 = e.0.min(v);
        e.1 = e.1.max(v);
    }
    pub fn inconclusive(&mut self, why: impl Into<String>) {
        self.inconclusive.push(why.into());
    }
}

#[derive(Default)]
pub struct ShardReport {
    pub episodes: u64,
    pub nontrivial: u64,
    pub keys: BTreeSet<u64>,
    pub violations: Vec<Value>,
    pub inconclusive: BTreeMap<String, u64>,
    pub counters: BTreeMap<String, u64>,
    pub minmax: BTreeMap<String, (i64, i64)>,
    pub samples: Vec<Value>,
    pub hooks: BTreeMap<String, u64>,
    pub panics: Vec<String>,
}

impl ShardReport {
    pub fn merge(&mut self, p: &EpParams, r: EpReport, max_samples: usize) {
        self.episodes += 1;
        if r.nontrivial {
            self.nontrivial += 1;
            self.keys.insert(crate::rng::fnv_str(&r.key));
            for k in &r.extra_keys {
                self.keys.insert(crate::rng::fnv_str(k));
            }
            if self.samples.len() < max_samples {
                self.samples.push(json!({"params": p, "key": r.key, "history": r.history.iter().take(60).collect::<Vec<_>>()}));
            }
        }
        for v in r.violations {
            if self.violations.len() < 200 {
                self.violations.push(json!({
                    "property": v.property, "sig": v.sig, "detail": v.detail,
                    "params": p, "history": r.history,
                }));
            } else {
                *self.counters.entry("violations_dropped_over_cap".into()).or_insert(0) += 1;
            }
        }
        for i in r.inconclusive {
            *self.inconclusive.entry(i).or_insert(0) += 1;
        }
        for (k, v) in r.counters {
            *self.counters.entry(k).or_insert(0) += v;
        }
        for (k, (lo, hi)) in r.minmax {
            let e = self.minmax.entry(k).or_insert((lo, hi));
            e.0 = e.0.min(lo);
            e.1 = e.1.max(hi);
        }
    }

    pub fn to_json(&self) -> Value {
        json!({
            "episodes": self.episodes,
            "nontrivial": self.nontrivial,
            "keys": self.keys.iter().collect::<Vec<_>>(),
            "violations": self.violations,
            "inconclusive": self.inconclusive,
            "counters": self.counters,
            "minmax": self.minmax.iter().map(|(k,(a,b))| (k.clone(), json!([a,b]))).collect::<BTreeMap<_,_>>(),
            "samples": self.samples,
            "hooks": self.hooks,
            "panics": self.panics,
        })
    }
}
