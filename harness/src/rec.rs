//! Recorder: the history of an episode, recorded at the client boundary.
//!
//! `Call` is appended before a client future is first polled, `Ret` after the
//! reply has been received. Every received message is a `Deliver` event of its
//! own. An operation whose future was dropped gets a `Cancel` event and stays
//! *open* (it may still take effect).

use serde::Serialize;
use std::collections::BTreeMap;
use std::collections::HashMap;
use std::sync::atomic::{AtomicU64, Ordering};
use std::sync::Mutex;

pub type Vt = u64; // nanoseconds since episode start (virtual in paused mode)

pub const MS: u64 = 1_000_000;
pub const SEC: u64 = 1_000_000_000;

#[derive(Clone, Debug, Serialize, PartialEq)]
pub enum Op {
    CreateTopic { name: String },
    DeleteTopic { name: String },
    GetTopic { name: String },
    ListTopics { project: String, size: i32, token: String },
    ListTopicSubs { topic: String, size: i32, token: String },
    Publish { topic: String, tags: Vec<String> },
    CreateSub { name: String, topic: String, deadline_s: i32, push: Option<String> },
    GetSub { name: String },
    ListSubs { project: String, size: i32, token: String },
    DeleteSub { name: String },
    Pull { sub: String, max: i32, ri: bool },
    Ack { sub: String, ids: Vec<String> },
    Modify { sub: String, ids: Vec<String>, secs: i32 },
    StreamOpen { sub: String, max_outstanding: i64 },
    StreamSend { stream: u64, sub: String, acks: Vec<String>, mod_ids: Vec<String>, mod_secs: Vec<i32> },
    StreamClose { stream: u64 },
    Raw { what: String },
}

impl Op {
    pub fn kind(&self) -> &'static str {
        match self {
            Op::CreateTopic { .. } => "CreateTopic",
            Op::DeleteTopic { .. } => "DeleteTopic",
            Op::GetTopic { .. } => "GetTopic",
            Op::ListTopics { .. } => "ListTopics",
            Op::ListTopicSubs { .. } => "ListTopicSubs",
            Op::Publish { .. } => "Publish",
            Op::CreateSub { .. } => "CreateSub",
            Op::GetSub { .. } => "GetSub",
            Op::ListSubs { .. } => "ListSubs",
            Op::DeleteSub { .. } => "DeleteSub",
            Op::Pull { ri: true, .. } => "PullRI",
            Op::Pull { ri: false, .. } => "Pull",
            Op::Ack { .. } => "Ack",
            Op::Modify { .. } => "Modify",
            Op::StreamOpen { .. } => "StreamOpen",
            Op::StreamSend { .. } => "StreamSend",
            Op::StreamClose { .. } => "StreamClose",
            Op::Raw { .. } => "Raw",
        }
    }

    /// The subscription name the operation addresses, if any.
    pub fn sub(&self) -> Option<&str> {
        match self {
            Op::CreateSub { name, .. } | Op::GetSub { name } | Op::DeleteSub { name } => Some(name),
            Op::Pull { sub, .. }
            | Op::Ack { sub, .. }
            | Op::Modify { sub, .. }
            | Op::StreamOpen { sub, .. }
            | Op::StreamSend { sub, .. } => Some(sub),
            _ => None,
        }
    }

    /// The topic name the operation addresses, if any.
    pub fn topic(&self) -> Option<&str> {
        match self {
            Op::CreateTopic { name } | Op::DeleteTopic { name } | Op::GetTopic { name } => Some(name),
            Op::ListTopicSubs { topic, .. } | Op::Publish { topic, .. } => Some(topic),
            _ => None,
        }
    }
}

#[derive(Clone, Debug, Serialize, PartialEq)]
pub struct SubView {
    pub name: String,
    pub topic: String,
    pub deadline_s: i32,
    pub push_endpoint: Option<String>,
    pub push_attrs: BTreeMap<String, String>,
}

#[derive(Clone, Debug, Serialize, PartialEq)]
pub enum Out {
    Ok,
    Ids(Vec<String>),
    Names { names: Vec<String>, next: String },
    Subs { subs: Vec<SubView>, next: String },
    Sub(SubView),
    Topic(String),
    Pulled(usize),
    /// gRPC status code number and message.
    Status(i32, String),
    Panic(String),
}

impl Out {
    pub fn is_ok(&self) -> bool {
        !matches!(self, Out::Status(..) | Out::Panic(..))
    }
    pub fn code(&self) -> i32 {
        match self {
            Out::Status(c, _) => *c,
            Out::Panic(_) => -1,
            _ => 0,
        }
    }
    pub fn class(&self) -> String {
        match self {
            Out::Status(c, _) => format!("E{}", c),
            Out::Panic(_) => "PANIC".into(),
            Out::Pulled(0) => "OK0".into(),
            _ => "OK".into(),
        }
    }
}

#[derive(Clone, Copy, Debug, Serialize, PartialEq, Eq, Hash)]
pub enum Via {
    Pull,
    Stream,
    Push,
}

#[derive(Clone, Debug, Serialize)]
pub struct Delivery {
    pub op_id: u64,
    pub via: Via,
    pub resp_no: u32,
    pub idx: u32,
    pub sub: String,
    pub ack_id: String,
    pub msg_id: String,
    pub tag: String,
    pub data_hash: u64,
    pub data_len: usize,
    pub attrs_hash: u64,
    pub publish_time: (i64, i32),
}

#[derive(Clone, Debug, Serialize)]
pub struct PostEv {
    pub sub: String,
    pub msg_id: String,
    pub msg_id_dupe: String,
    pub tag: String,
    pub data_hash: u64,
    pub data_ok: bool,
    pub attrs_hash: u64,
    pub json_ok: bool,
    pub answer: String,
    pub raw_len: usize,
}

#[derive(Clone, Debug, Serialize)]
pub struct SubStat {
    pub outstanding: usize,
    pub backlog: usize,
    pub topic: String,
}

#[derive(Clone, Debug, Serialize)]
pub enum EvKind {
    Call { op_id: u64, op: Op },
    Ret { op_id: u64, out: Out },
    Cancel { op_id: u64, polls: u32 },
    Deliver(Delivery),
    /// A stream's response side ended: 0 = clean end, otherwise the status code.
    StreamEnd { op_id: u64, code: i32 },
    Post(PostEv),
    Quiesce { stats: BTreeMap<String, SubStat>, waiting: BTreeMap<String, Vec<u64>> },
    Note(String),
}

#[derive(Clone, Debug, Serialize)]
pub struct Ev {
    pub seq: u64,
    pub vt: Vt,
    pub client: u32,
    pub kind: EvKind,
}

/// What was published under a tag.
#[derive(Clone, Debug, Serialize)]
pub struct PubRecord {
    pub op_id: u64,
    pub idx: usize,
    pub topic: String,
    pub data_hash: u64,
    pub data_len: usize,
    pub attrs_hash: u64,
}

/// Client-visible events recorded in this process (all episodes): read by the livelock watchdog.
pub static GLOBAL_EVENTS: AtomicU64 = AtomicU64::new(0);

pub struct Recorder {
    seq: AtomicU64,
    next_op: AtomicU64,
    pub events: Mutex<Vec<Ev>>,
    pub published: Mutex<HashMap<String, PubRecord>>,
}

impl Default for Recorder {
    fn default() -> Self {
        Self::new()
    }
}

impl Recorder {
    pub fn new() -> Self {
        Self {
            seq: AtomicU64::new(0),
            next_op: AtomicU64::new(1),
            events: Mutex::new(Vec::new()),
            published: Mutex::new(HashMap::new()),
        }
    }

    pub fn activity(&self) -> u64 {
        self.seq.load(Ordering::SeqCst)
    }

    pub fn new_op_id(&self) -> u64 {
        self.next_op.fetch_add(1, Ordering::SeqCst)
    }

    pub fn push(&self, vt: Vt, client: u32, kind: EvKind) -> u64 {
        GLOBAL_EVENTS.fetch_add(1, Ordering::Relaxed);
        // seq is assigned under the lock so that seq order = vector order.
        let mut evs = self.events.lock().unwrap_or_else(|e| e.into_inner());
        let seq = self.seq.fetch_add(1, Ordering::SeqCst);
        evs.push(Ev { seq, vt, client, kind });
        seq
    }

    pub fn take(&self) -> Vec<Ev> {
        std::mem::take(&mut *self.events.lock().unwrap_or_else(|e| e.into_inner()))
    }

    pub fn snapshot(&self) -> Vec<Ev> {
        self.events.lock().unwrap_or_else(|e| e.into_inner()).clone()
    }

    pub fn len(&self) -> usize {
        self.events.lock().unwrap_or_else(|e| e.into_inner()).len()
    }
}

/// Index over a finished history.
pub struct History {
    pub evs: Vec<Ev>,
    pub ops: BTreeMap<u64, OpRec>,
    pub published: HashMap<String, PubRecord>,
}

#[derive(Clone, Debug)]
pub struct OpRec {
    pub op_id: u64,
    pub client: u32,
    pub op: Op,
    pub call_seq: u64,
    pub call_vt: Vt,
    pub ret: Option<(u64, Vt, Out)>,
    pub cancel: Option<(u64, Vt, u32)>,
    pub deliveries: Vec<usize>, // indexes into evs
    pub stream_end: Option<(u64, Vt, i32)>,
}

impl OpRec {
    pub fn ret_seq(&self) -> Option<u64> {
        self.ret.as_ref().map(|r| r.0)
    }
    pub fn ok(&self) -> bool {
        matches!(&self.ret, Some((_, _, o)) if o.is_ok())
    }
    pub fn code(&self) -> Option<i32> {
        self.ret.as_ref().map(|r| r.2.code())
    }
}

impl History {
    pub fn build(evs: Vec<Ev>, published: HashMap<String, PubRecord>) -> Self {
        let mut ops: BTreeMap<u64, OpRec> = BTreeMap::new();
        for (i, e) in evs.iter().enumerate() {
            match &e.kind {
                EvKind::Call { op_id, op } => {
                    ops.insert(
                        *op_id,
                        OpRec {
                            op_id: *op_id,
                            client: e.client,
                            op: op.clone(),
                            call_seq: e.seq,
                            call_vt: e.vt,
                            ret: None,
                            cancel: None,
                            deliveries: vec![],
                            stream_end: None,
                        },
                    );
                }
                EvKind::Ret { op_id, out } => {
                    if let Some(o) = ops.get_mut(op_id) {
                        o.ret = Some((e.seq, e.vt, out.clone()));
                    }
                }
                EvKind::Cancel { op_id, polls } => {
                    if let Some(o) = ops.get_mut(op_id) {
                        o.cancel = Some((e.seq, e.vt, *polls));
                    }
                }
                EvKind::Deliver(d) => {
                    if let Some(o) = ops.get_mut(&d.op_id) {
                        o.deliveries.push(i);
                    }
                }
                EvKind::StreamEnd { op_id, code } => {
                    if let Some(o) = ops.get_mut(op_id) {
                        o.stream_end = Some((e.seq, e.vt, *code));
                    }
                }
                _ => {}
            }
        }
        History { evs, ops, published }
    }

    pub fn delivery(&self, idx: usize) -> &Delivery {
        match &self.evs[idx].kind {
            EvKind::Deliver(d) => d,
            _ => unreachable!(),
        }
    }

    /// Compact abstract rendering of the history (for samples and replay files).
    pub fn abstract_lines(&self, limit: usize) -> Vec<String> {
        let mut out = Vec::new();
        for e in &self.evs {
            if out.len() >= limit {
                out.push(format!("... ({} events total)", self.evs.len()));
                break;
            }
            let line = match &e.kind {
                EvKind::Call { op_id, op } => format!("#{} t={}ms c{} call {} {:?}", e.seq, e.vt / MS, e.client, op_id, op),
                EvKind::Ret { op_id, out } => {
                    let o = match out {
                        Out::Status(c, m) => format!("Status({}, {:?})", c, trunc(m, 60)),
                        Out::Names { names, next } => format!("Names(n={}, next={:?})", names.len(), next),
                        Out::Subs { subs, next } => format!("Subs(n={}, next={:?})", subs.len(), next),
                        o => trunc(&format!("{:?}", o), 160),
                    };
                    format!("#{} t={}ms c{} ret  {} {}", e.seq, e.vt / MS, e.client, op_id, o)
                }
                EvKind::Cancel { op_id, polls } => format!("#{} t={}ms c{} cancel {} after {} polls", e.seq, e.vt / MS, e.client, op_id, polls),
                EvKind::Deliver(d) => format!(
                    "#{} t={}ms c{} deliver op={} {:?} r{}[{}] sub={} ack={} msg={} tag={}",
                    e.seq, e.vt / MS, e.client, d.op_id, d.via, d.resp_no, d.idx, short(&d.sub), d.ack_id, d.msg_id, d.tag
                ),
                EvKind::StreamEnd { op_id, code } => format!("#{} t={}ms c{} stream-end {} code={}", e.seq, e.vt / MS, e.client, op_id, code),
                EvKind::Post(p) => format!("#{} t={}ms post sub={} msg={} tag={} answer={}", e.seq, e.vt / MS, short(&p.sub), p.msg_id, p.tag, p.answer),
                EvKind::Quiesce { stats, waiting } => {
                    let s: Vec<String> = stats.iter().map(|(k, v)| format!("{}:o{}b{}", short(k), v.outstanding, v.backlog)).collect();
                    let w: Vec<String> = waiting.iter().map(|(k, v)| format!("{}:{}", short(k), v.len())).collect();
                    format!("#{} t={}ms quiesce stats[{}] waiting[{}]", e.seq, e.vt / MS, s.join(","), w.join(","))
                }
                EvKind::Note(n) => format!("#{} t={}ms note {}", e.seq, e.vt / MS, n),
            };
            out.push(line);
        }
        out
    }
}

pub fn short(name: &str) -> &str {
    name.rsplit('/').next().unwrap_or(name)
}

pub fn trunc(s: &str, n: usize) -> String {
    if s.len() <= n {
        s.to_string()
    } else {
        let mut end = n;
        while !s.is_char_boundary(end) {
            end -= 1;
        }
        format!("{}…", &s[..end])
    }
}
