fn main() {}
