//! C19 — flow-control waiters never miss free capacity.
//!
//! Real OS threads drive `FlowControl::wait_for_available_space()` with a tiny
//! hand-written executor (poll; if Pending, park until the instrumented waker
//! fires) while mutator threads call `inc` / `dec`. Every mutation goes through
//! a wrapper that serialises it under one mutex and appends the counters'
//! values to a trace, so the monitor's state is updated atomically with the
//! state it shadows. Oracles (DESIGN 4/C19):
//!   * never spuriously: a waiter that returned must have been able to observe
//!     messages < max at some trace position i and bytes < max at some j >= i
//!     inside its [start, return] window;
//!   * never missed (decided logically, no timeout): once all mutators are done
//!     and the final counters are below both limits, a waiter that is parked
//!     with its waker not fired can never run again;
//!   * all released by one change: with W waiters parked, a single `dec` that
//!     frees capacity releases all of them.
//!
//!   flowcheck native --trials N --seed S [--out FILE]
//!   flowcheck miri [--script K]        (one trial; run under -Zmiri-many-seeds)

use deltio::subscriptions::flow_control::{self, FlowControl};
use std::future::Future;
use std::pin::Pin;
use std::sync::atomic::{AtomicU64, AtomicUsize, Ordering};
use std::sync::{Arc, Barrier, Condvar, Mutex};
use std::task::{Context, Poll, Wake, Waker};

const MAX_MSGS: u64 = 2;
const MAX_BYTES: u64 = 100;

struct Rng(u64);
impl Rng {
    fn next(&mut self) -> u64 {
        self.0 = self.0.wrapping_add(0x9E37_79B9_7F4A_7C15);
        let mut z = self.0;
        z = (z ^ (z >> 30)).wrapping_mul(0xBF58_476D_1CE4_E5B9);
        z = (z ^ (z >> 27)).wrapping_mul(0x94D0_49BB_1331_11EB);
        z ^ (z >> 31)
    }
    fn below(&mut self, n: u64) -> u64 {
        self.next() % n
    }
}

/// One mutation in "free" mode (mutators not serialised against each other).
#[derive(Clone, Copy)]
struct OpLog {
    inc: bool,
    bytes: u64,
    msgs: u64,
    started_at: usize,
    completed_at: usize,
}

/// The mutation wrapper + trace.
///
/// Serialised mode: every mutation runs under the trace mutex, so the trace is the exact
/// sequence of counter states (strong "never spuriously" oracle). Free mode: mutators overlap
/// freely (crossing `inc`/`dec` calls); only a logical clock is taken at the start and the end
/// of each call, and the spurious-resume oracle falls back to a sound lower bound.
struct Shadow {
    fc: FlowControl,
    /// (messages, bytes) after each completed mutation; index 0 = initial state.
    trace: Mutex<Vec<(u64, u64)>>,
    started: AtomicUsize,
    completed: AtomicUsize,
    free: bool,
    clock: AtomicUsize,
    ops: Mutex<Vec<OpLog>>,
    init: (u64, u64),
    limits: (u64, u64),
}

impl Shadow {
    fn new(init_msgs: u64, init_bytes: u64, free: bool, limits: (u64, u64)) -> Shadow {
        let fc = flow_control::create(limits.1, limits.0);
        fc.inc(init_bytes, init_msgs);
        Shadow {
            fc,
            trace: Mutex::new(vec![(init_msgs, init_bytes)]),
            started: AtomicUsize::new(0),
            completed: AtomicUsize::new(0),
            free,
            clock: AtomicUsize::new(0),
            ops: Mutex::new(Vec::new()),
            init: (init_msgs, init_bytes),
            limits,
        }
    }
    fn now(&self) -> usize {
        self.clock.load(Ordering::SeqCst)
    }
    fn final_state(&self) -> (u64, u64) {
        if !self.free {
            return *self.trace.lock().unwrap().last().unwrap();
        }
        let (mut m, mut b) = (self.init.0 as i64, self.init.1 as i64);
        for o in self.ops.lock().unwrap().iter() {
            let sign = if o.inc { 1 } else { -1 };
            m += sign * o.msgs as i64;
            b += sign * o.bytes as i64;
        }
        (m as u64, b as u64)
    }
    fn apply(&self, inc: bool, bytes: u64, msgs: u64) {
        if self.free {
            let started_at = self.clock.fetch_add(1, Ordering::SeqCst) + 1;
            if inc {
                self.fc.inc(bytes, msgs);
            } else {
                self.fc.dec(bytes, msgs);
            }
            let completed_at = self.clock.fetch_add(1, Ordering::SeqCst) + 1;
            self.ops.lock().unwrap().push(OpLog { inc, bytes, msgs, started_at, completed_at });
            return;
        }
        let mut t = self.trace.lock().unwrap();
        let (m, b) = *t.last().unwrap();
        self.started.fetch_add(1, Ordering::SeqCst);
        if inc {
            self.fc.inc(bytes, msgs);
            t.push((m.wrapping_add(msgs), b.wrapping_add(bytes)));
        } else {
            self.fc.dec(bytes, msgs);
            t.push((m.wrapping_sub(msgs), b.wrapping_sub(bytes)));
        }
        self.completed.fetch_add(1, Ordering::SeqCst);
    }
}

#[derive(Default)]
struct Park {
    woken: bool,
    parked: bool,
    done: bool,
    /// set by the monitor once the verdict is in: the waiter thread gives up instead of parking again
    abandon: bool,
}

struct WaiterState {
    park: Mutex<Park>,
    cv: Condvar,
    wakes: AtomicU64,
}

impl Wake for WaiterState {
    fn wake(self: Arc<Self>) {
        self.wake_by_ref()
    }
    fn wake_by_ref(self: &Arc<Self>) {
        self.wakes.fetch_add(1, Ordering::SeqCst);
        let mut p = self.park.lock().unwrap();
        p.woken = true;
        self.cv.notify_all();
    }
}

struct WaitResult {
    polls: u64,
    parked_at_least_once: bool,
    start_completed: usize,
    end_started: usize,
}

/// Drives one wait to completion on the calling thread.
fn drive_wait(sh: &Shadow, ws: &Arc<WaiterState>, spin_before: u64) -> WaitResult {
    for _ in 0..spin_before {
        std::hint::spin_loop();
    }
    // the window in which the waiter can have looked at the counters before resuming is its
    // *final* poll: the real code evaluates both counters inside one poll, after its last wake-up
    let mut start_completed;
    let waker = Waker::from(Arc::clone(ws));
    let mut cx = Context::from_waker(&waker);
    let mut fut: Pin<Box<dyn Future<Output = ()> + '_>> = Box::pin(sh.fc.wait_for_available_space());
    let mut polls = 0;
    let mut parked_once = false;
    loop {
        polls += 1;
        start_completed = if sh.free { sh.now() } else { sh.completed.load(Ordering::SeqCst) };
        match fut.as_mut().poll(&mut cx) {
            Poll::Ready(()) => break,
            Poll::Pending => {
                let mut p = ws.park.lock().unwrap();
                p.parked = true;
                parked_once = true;
                while !p.woken {
                    p = ws.cv.wait(p).unwrap();
                }
                p.woken = false;
                p.parked = false;
                if p.abandon {
                    break;
                }
            }
        }
    }
    let end_started = if sh.free { sh.now() } else { sh.started.load(Ordering::SeqCst) };
    ws.park.lock().unwrap().done = true;
    WaitResult { polls, parked_at_least_once: parked_once, start_completed, end_started }
}

/// "Never spuriously": could the waiter have seen messages < max at i and bytes < max at j >= i?
fn could_have_observed(trace: &[(u64, u64)], r: &WaitResult, limits: (u64, u64)) -> bool {
    let lo = r.start_completed.min(trace.len() - 1);
    let hi = r.end_started.min(trace.len() - 1);
    let mut seen_msgs_ok = false;
    for k in lo..=hi {
        if trace[k].0 < limits.0 {
            seen_msgs_ok = true;
        }
        if seen_msgs_ok && trace[k].1 < limits.1 {
            return true;
        }
    }
    false
}

#[derive(Clone)]
struct Script {
    /// per mutator: list of (inc?, bytes, msgs)
    muts: Vec<Vec<(bool, u64, u64)>>,
    waiters: usize,
    init: (u64, u64),
    /// (message limit, byte limit) of the FlowControl under test
    limits: (u64, u64),
}

/// Scripts always start without capacity and end with capacity.
fn make_script(rng: &mut Rng, kind: u64) -> Script {
    let mut sc = make_script_base(rng, kind);
    // scripts that are bound by the message limit alone also run with a byte limit that stands for
    // "unlimited" (beyond i64::MAX): the byte count is then below its limit whatever happens
    if matches!(kind % 8, 0 | 2) && rng.below(3) == 0 {
        sc.limits.1 = *[u64::MAX, (i64::MAX as u64) + 1, u64::MAX - 1][rng.below(3) as usize..].first().unwrap();
    }
    sc
}

fn make_script_base(rng: &mut Rng, kind: u64) -> Script {
    let waiters = 1 + rng.below(3) as usize;
    match kind % 8 {
        7 => {
            // counts far beyond anything a mailbox holds (2^24, 2^32, 2^40 messages; 2^40 .. 2^62
            // bytes): the counters are 64 bits wide and the limits are compared on the whole value
            match rng.below(3) {
                0 => {
                    let v = [1u64 << 24, (1 << 24) + 5, 1 << 32, (1 << 40) + 1][rng.below(4) as usize];
                    Script { muts: vec![vec![(false, 0, v - 999)]], waiters, init: (v, 10), limits: (1000, MAX_BYTES) }
                }
                1 => {
                    let b = [1u64 << 40, (1 << 40) + 7, 1 << 48, 1 << 62][rng.below(4) as usize];
                    Script { muts: vec![vec![(false, b - 100, 0)]], waiters, init: (0, b), limits: (MAX_MSGS, 1 << 20) }
                }
                _ => {
                    // up to 2^24 messages and back, then one below the limit
                    let d = (1u64 << 24) - MAX_MSGS;
                    Script { muts: vec![vec![(true, 0, d), (false, 0, d), (false, 0, 1)]], waiters, init: (MAX_MSGS, 0), limits: (MAX_MSGS, MAX_BYTES) }
                }
            }
        }
        6 => {
            // releases that overtake their acquisitions: two messages are released before they were
            // counted (the counter wraps below zero and comes back, increments and decrements
            // commute), while the waiters are held by the byte limit; the last step frees the bytes.
            // The true final state is (0 messages, bytes below the limit).
            Script {
                muts: vec![vec![(false, 0, 1), (false, 0, 1), (true, 0, 1), (true, 0, 1), (false, 60, 0)]],
                waiters,
                init: (0, MAX_BYTES + 10),
                limits: (MAX_MSGS, MAX_BYTES),
            }
        }
        5 => {
            // both limits exhausted; messages are freed, taken again, then bytes are freed: at no
            // moment is there capacity, until the last step frees a message ("patient" script: the
            // mutator lets the waiters react to every step)
            Script { muts: vec![vec![(false, 0, 1), (true, 0, 1), (false, 60, 0), (false, 0, 1)]], waiters, init: (MAX_MSGS, MAX_BYTES + 10), limits: (MAX_MSGS, MAX_BYTES) }
        }
        4 => {
            // both limits exceeded; two symmetric decrements that cross each other; the sum frees capacity
            Script { muts: vec![vec![(false, 40, 1)], vec![(false, 40, 1)]], waiters, init: (MAX_MSGS + 1, MAX_BYTES + 50), limits: (MAX_MSGS, MAX_BYTES) }
        }
        0 => {
            // full on messages; one dec releases everybody
            Script { muts: vec![vec![(false, 0, 1)]], waiters, init: (MAX_MSGS, 10), limits: (MAX_MSGS, MAX_BYTES) }
        }
        1 => {
            // full on bytes and messages; two mutators free one dimension each
            Script { muts: vec![vec![(false, 0, 1)], vec![(false, 60, 0)]], waiters, init: (MAX_MSGS, MAX_BYTES + 10), limits: (MAX_MSGS, MAX_BYTES) }
        }
        2 => {
            // churn: capacity appears, disappears, appears
            Script { muts: vec![vec![(false, 0, 1), (true, 0, 1), (false, 0, 2)]], waiters, init: (MAX_MSGS, 0), limits: (MAX_MSGS, MAX_BYTES) }
        }
        _ => {
            // two mutators: one takes the initial surplus away in 2-3 steps, the other adds and
            // removes its own amounts (never underflows whatever the interleaving); the sum ends
            // below both limits
            let a = if rng.below(2) == 0 { vec![(false, 30, 1), (false, 60, 2)] } else { vec![(false, 0, 2), (false, 90, 0), (false, 0, 1)] };
            let mut c = Vec::new();
            for _ in 0..(1 + rng.below(2)) {
                let (db, dm) = (rng.below(3) * 30, rng.below(3));
                c.push((true, db, dm));
                c.push((false, db, dm));
            }
            Script { muts: vec![a, c], waiters, init: (MAX_MSGS + 2, MAX_BYTES + 60), limits: (MAX_MSGS, MAX_BYTES) }
        }
    }
}

struct TrialOutcome {
    violation: Option<(String, String)>,
    inconclusive: Option<String>,
    parked: usize,
    polls: Vec<u64>,
}

/// One trial with freshly spawned threads (used under Miri and as the simple native path).
/// Free mode: the lowest values the counters can have had inside the waiter's window are
/// init + (increments that had completed before it started) - (decrements that had started
/// before it returned). If even those are not below the limits the resume was spurious.
fn could_have_observed_free(sh: &Shadow, r: &WaitResult) -> bool {
    let (mut m, mut b) = (sh.init.0 as i64, sh.init.1 as i64);
    for o in sh.ops.lock().unwrap().iter() {
        if o.inc && o.completed_at <= r.start_completed {
            m += o.msgs as i64;
            b += o.bytes as i64;
        }
        if !o.inc && o.started_at <= r.end_started {
            m -= o.msgs as i64;
            b -= o.bytes as i64;
        }
    }
    (m as i128) < sh.limits.0 as i128 && (b as i128) < sh.limits.1 as i128
}

fn run_trial_spawned(script: &Script, rng: &mut Rng, jitter: bool, free: bool) -> TrialOutcome {
    let sh = Arc::new(Shadow::new(script.init.0, script.init.1, free, script.limits));
    let states: Vec<Arc<WaiterState>> = (0..script.waiters).map(|_| Arc::new(WaiterState { park: Mutex::new(Park::default()), cv: Condvar::new(), wakes: AtomicU64::new(0) })).collect();
    let go = Arc::new(Barrier::new(script.waiters + script.muts.len()));
    // tight trials: the mutators additionally meet at a spin barrier, so that their calls really overlap
    let spin_gate = Arc::new(AtomicUsize::new(0));
    let n_muts = script.muts.len();
    let crossing_script = free && n_muts == 2 && script.muts.iter().all(|m| m.len() == 1);
    let tight = jitter && (rng.below(3) == 0 || crossing_script);
    let mut wh = Vec::new();
    for ws in &states {
        let (sh, ws, go) = (Arc::clone(&sh), Arc::clone(ws), Arc::clone(&go));
        let spin = if jitter { rng.below(200) } else { 0 };
        wh.push(std::thread::spawn(move || {
            go.wait();
            drive_wait(&sh, &ws, spin)
        }));
    }
    let mut mh = Vec::new();
    for ops in &script.muts {
        let (sh, go, ops) = (Arc::clone(&sh), Arc::clone(&go), ops.clone());
        // a third of the trials: no jitter at all, so that the mutators' calls cross each other
        let spins: Vec<u64> = ops.iter().map(|_| if jitter && !tight { rng.below(300) } else { 0 }).collect();
        let gate = Arc::clone(&spin_gate);
        let patient = script.muts.len() == 1 && script.muts[0].len() >= 4;
        let states2 = states.clone();
        mh.push(std::thread::spawn(move || {
            go.wait();
            if tight {
                gate.fetch_add(1, Ordering::SeqCst);
                let t0 = std::time::Instant::now();
                while gate.load(Ordering::SeqCst) < n_muts && t0.elapsed().as_millis() < 50 {
                    std::hint::spin_loop();
                }
            }
            for (i, (inc, b, m)) in ops.iter().enumerate() {
                for _ in 0..spins[i] {
                    std::hint::spin_loop();
                }
                sh.apply(*inc, *b, *m);
                if patient {
                    // let every waiter react to this step: each one is done, or parked again with
                    // its wake-up consumed (bounded; giving up only makes the trial less pointed)
                    for _ in 0..20_000 {
                        let settled = states2.iter().all(|ws| {
                            let p = ws.park.lock().unwrap();
                            p.done || (p.parked && !p.woken)
                        });
                        if settled {
                            break;
                        }
                        std::thread::yield_now();
                    }
                }
            }
        }));
    }
    let mut panicked: Option<String> = None;
    for h in mh {
        if let Err(e) = h.join() {
            let msg = e.downcast_ref::<String>().cloned().or_else(|| e.downcast_ref::<&str>().map(|s| s.to_string())).unwrap_or_else(|| "panic".into());
            panicked = Some(msg);
        }
    }
    if let Some(msg) = panicked {
        // inc / dec itself panicked: the script was cut short, so nothing can be said about the
        // waiters; let them go and report the panic
        for ws in &states {
            let mut p = ws.park.lock().unwrap_or_else(|e| e.into_inner());
            p.woken = true;
            p.abandon = true;
            ws.cv.notify_all();
        }
        sh.fc.inc(0, 0);
        for h in wh {
            let _ = h.join();
        }
        return TrialOutcome {
            violation: Some(("C19:panic-in-flow-control".into(), format!("a FlowControl::inc/dec call panicked: {}", msg))),
            inconclusive: None,
            parked: 0,
            polls: vec![],
        };
    }
    finish_trial(&sh, &states, wh)
}

fn finish_trial(sh: &Arc<Shadow>, states: &[Arc<WaiterState>], wh: Vec<std::thread::JoinHandle<WaitResult>>) -> TrialOutcome {
    let mut out = TrialOutcome { violation: None, inconclusive: None, parked: 0, polls: vec![] };
    // All mutators are done. The final counters are below both limits by construction.
    let fin = sh.final_state();
    assert!(fin.0 < sh.limits.0 && fin.1 < sh.limits.1, "script must end with capacity: {:?}", fin);
    // never missed: decided logically
    let t0 = std::time::Instant::now();
    let mut stuck: Vec<usize> = vec![];
    for (i, ws) in states.iter().enumerate() {
        loop {
            let p = ws.park.lock().unwrap();
            if p.done {
                break;
            }
            if p.parked && !p.woken {
                // parked, waker not fired, and nobody is left to fire it
                stuck.push(i);
                break;
            }
            drop(p);
            if t0.elapsed().as_secs() > 20 {
                out.inconclusive = Some("waiter neither finished nor parked within 20 s".into());
                break;
            }
            std::thread::yield_now();
        }
    }
    if !stuck.is_empty() {
        out.violation = Some((
            "C19:missed-wakeup".into(),
            format!("{} of {} waiter(s) parked for ever although the final counters ({} messages, {} bytes) are below both limits; trace {:?}", stuck.len(), states.len(), fin.0, fin.1, sh.trace.lock().unwrap()),
        ));
        // release them so that the threads can be joined
        sh.fc.dec(0, 0);
        for &i in &stuck {
            let ws = &states[i];
            let mut p = ws.park.lock().unwrap();
            p.woken = true;
            p.abandon = true;
            ws.cv.notify_all();
        }
    }
    let trace = sh.trace.lock().unwrap().clone();
    for h in wh {
        let r = h.join().unwrap();
        if r.parked_at_least_once {
            out.parked += 1;
        }
        let observable = if sh.free { could_have_observed_free(sh, &r) } else { could_have_observed(&trace, &r, sh.limits) };
        if out.violation.is_none() && !observable {
            out.violation = Some((
                "C19:spurious-resume".into(),
                format!("a waiter resumed although no position of the trace window [{}, {}] shows messages < {} followed by bytes < {}; trace {:?}", r.start_completed, r.end_started, sh.limits.0, sh.limits.1, trace),
            ));
        }
        out.polls.push(r.polls);
    }
    out
}

fn main() {
    let args: Vec<String> = std::env::args().collect();
    let mode = args.get(1).map(|s| s.as_str()).unwrap_or("noop");
    let get = |k: &str| args.iter().position(|a| a == k).and_then(|i| args.get(i + 1)).cloned();
    match mode {
        "noop" => {}
        "miri" => {
            // one trial per process; Miri's -Zmiri-many-seeds varies the schedule
            let k: u64 = get("--script").and_then(|s| s.parse().ok()).unwrap_or(1);
            let mut rng = Rng(k.wrapping_mul(77));
            let mut script = make_script(&mut rng, k);
            script.waiters = script.waiters.min(2);
            let free = k % 2 == 1;
            let o = run_trial_spawned(&script, &mut rng, false, free);
            match (&o.violation, &o.inconclusive) {
                (Some((sig, d)), _) => {
                    println!("FLOW VIOLATION {} {}", sig, d);
                    std::process::exit(1);
                }
                (None, Some(i)) => println!("FLOW INCONCLUSIVE {}", i),
                _ => println!("FLOW ok script={} waiters={} parked={} polls={:?}", k % 8, script.waiters, o.parked, o.polls),
            }
        }
        "native" => {
            let trials: u64 = get("--trials").and_then(|s| s.parse().ok()).unwrap_or(1000);
            let seed: u64 = get("--seed").and_then(|s| s.parse().ok()).unwrap_or(1);
            let out = get("--out");
            let mut rng = Rng(seed);
            let t0 = std::time::Instant::now();
            let mut parked_trials = 0u64;
            let mut keys: std::collections::BTreeSet<String> = Default::default();
            let mut violations: Vec<serde_json::Value> = vec![];
            let mut inconclusive = 0u64;
            let mut samples: Vec<serde_json::Value> = vec![];
            for t in 0..trials {
                let kind = rng.below(8);
                let script = make_script(&mut rng, kind);
                let free = rng.below(2) == 0;
                let o = run_trial_spawned(&script, &mut rng, true, free);
                if o.parked > 0 {
                    parked_trials += 1;
                    let mut pv = o.polls.clone();
                    pv.sort();
                    keys.insert(format!("k{} f{} w{} m{} polls{:?}", kind, free, script.waiters, script.muts.iter().map(|m| m.len().to_string()).collect::<Vec<_>>().join("/"), pv));
                }
                if let Some(i) = o.inconclusive {
                    inconclusive += 1;
                    let _ = i;
                }
                if let Some((sig, d)) = o.violation {
                    if violations.len() < 20 {
                        violations.push(serde_json::json!({"property": "C19", "sig": sig, "detail": d,
                            "params": {"scenario": "flow-native", "ep_seed": seed, "trial": t}, "history": [format!("script kind {} waiters {} mutators {:?}", kind, script.waiters, script.muts)]}));
                    }
                }
                if samples.len() < 2 && o.parked > 0 {
                    samples.push(serde_json::json!({"script_kind": kind, "waiters": script.waiters, "mutators": format!("{:?}", script.muts), "polls": o.polls, "parked": o.parked}));
                }
            }
            let j = serde_json::json!({
                "episodes": trials, "nontrivial": parked_trials, "keys": keys.iter().map(|k| { let mut h: u64 = 0xcbf29ce484222325; for b in k.bytes() { h ^= b as u64; h = h.wrapping_mul(0x100000001b3); } h }).collect::<Vec<u64>>(),
                "violations": violations, "inconclusive": if inconclusive > 0 { serde_json::json!({"flow-native: waiter neither finished nor parked within 20 s": inconclusive}) } else { serde_json::json!({}) },
                "counters": {"trials_with_parked_waiter": parked_trials}, "minmax": {}, "samples": samples, "hooks": {}, "panics": [],
                "rule": "native threads: per trial 1-3 waiter threads drive wait_for_available_space() with a hand-written executor while 1-2 mutator threads run a script of inc/dec (8 script kinds: counts and byte totals of 2^24 .. 2^62; releases that overtake their acquisitions while the byte limit holds the waiters; single releasing dec, two mutators freeing one dimension each, capacity churn, two mutators with add/remove pairs, two symmetric crossing decrements from a state above both limits, and a patient script in which messages are freed, taken again and bytes freed so that capacity never exists until the last step) with random spin jitter between the steps; in half of the trials the mutators are serialised by the trace wrapper (exact trace, strong spurious-resume oracle), in the other half they overlap freely (crossing inc/dec calls; logical-clock log, lower-bound spurious-resume oracle). Non-trivial: a waiter parked at least once before returning. Distinct: (script kind, waiters, script lengths, sorted poll-count vector).",
                "exhaustive_plan": false, "truncated": false, "wall_s": t0.elapsed().as_secs_f64()
            });
            let s = serde_json::to_string(&j).unwrap();
            match out {
                Some(f) => std::fs::write(f, s).unwrap(),
                None => println!("{}", s),
            }
        }
        _ => {
            eprintln!("usage: flowcheck native --trials N --seed S [--out FILE] | miri [--script K] | noop");
            std::process::exit(2);
        }
    }
}
