//! The world of one episode: a fresh deltio instance, a transport, a recorder,
//! a clock and the quiescence machinery.

use crate::rec::*;
use deltio::push::PushSubscriptionsRegistry;
use deltio::subscriptions::subscription_manager::SubscriptionManager;
use deltio::subscriptions::SubscriptionName;
use deltio::topics::topic_manager::TopicManager;
use deltio::Deltio;
use std::collections::BTreeMap;
use std::sync::atomic::{AtomicU64, Ordering};
use std::sync::{Arc, Mutex};
use std::time::Duration;
use tokio::time::Instant;
use tonic::body::BoxBody;
use tower::util::BoxCloneService;
use tower::ServiceExt;

/// Transport error with a concrete type (a boxed `dyn Error` here trips the
/// compiler's higher-ranked lifetime check inside spawned client tasks).
#[derive(Debug)]
pub struct TransportErr(pub String);

impl std::fmt::Display for TransportErr {
    fn fmt(&self, f: &mut std::fmt::Formatter<'_>) -> std::fmt::Result {
        write!(f, "transport error: {}", self.0)
    }
}

impl std::error::Error for TransportErr {}

pub type Svc = BoxCloneService<http::Request<BoxBody>, http::Response<BoxBody>, TransportErr>;

#[derive(Clone, Copy, Debug, PartialEq, Eq)]
pub enum Transport {
    /// The tonic router used directly as the clients' transport: no sockets, the
    /// handler future lives inside the client's call future.
    Direct,
    /// Full hyper/h2 path over in-memory duplex pipes.
    H2,
}

impl Transport {
    pub fn name(&self) -> &'static str {
        match self {
            Transport::Direct => "direct",
            Transport::H2 => "h2",
        }
    }
}

pub struct World {
    pub app: Deltio,
    pub svc: Mutex<Svc>,
    pub rec: Arc<Recorder>,
    pub tm: Arc<TopicManager>,
    pub sm: Arc<SubscriptionManager>,
    pub reg: PushSubscriptionsRegistry,
    pub start: Instant,
    pub transport: Transport,
    pub paused: bool,
    /// Barrier rounds that must be silent for `settle` to succeed.
    pub barrier_rounds: u32,
    pub barrier_cap: u32,
    pub settle_inconclusive: AtomicU64,
    pub server_task: Mutex<Option<tokio::task::JoinHandle<()>>>,
    /// message_id values the next Publish carries in its messages (a client that forwards received
    /// messages verbatim); consumed by that Publish.
    pub forward_ids: Mutex<Vec<String>>,
    /// Counts requests that could carry optional fields (ordering keys on a Publish, the stream
    /// deadline and client id on a StreamingPull control message); every few of them does.
    pub optional_fields: AtomicU64,
}

/// Builds the runtime for one episode.
pub fn episode_runtime(seed: u64, paused: bool, io: bool, threads: usize) -> tokio::runtime::Runtime {
    let mut b = if threads <= 1 {
        tokio::runtime::Builder::new_current_thread()
    } else {
        let mut b = tokio::runtime::Builder::new_multi_thread();
        b.worker_threads(threads);
        b
    };
    if io {
        b.enable_all();
    } else {
        b.enable_time();
    }
    if paused {
        b.start_paused(true);
    }
    let mut bytes = [0u8; 16];
    bytes[..8].copy_from_slice(&seed.to_le_bytes());
    bytes[8..].copy_from_slice(&seed.rotate_left(17).to_le_bytes());
    b.rng_seed(tokio::runtime::RngSeed::from_bytes(&bytes));
    b.build().expect("runtime")
}

/// Touches the process-wide deadline epoch. Must be called once at process
/// start, outside any runtime (DESIGN 3.1, "the EPOCH trap").
pub fn touch_epoch() {
    let _ = deltio::subscriptions::verif_epoch();
}

impl World {
    /// Creates a world inside the current runtime. `phase_ms` (0..100) aligns the
    /// paused clock to a chosen phase of the 100 ms rounding grid.
    pub async fn new(transport: Transport, paused: bool, phase_ms: Option<u64>) -> Arc<World> {
        let app = Deltio::new();
        let (tm, sm, reg) = app.verif_parts();
        let mut server_task = None;
        let svc: Svc = match transport {
            Transport::Direct => {
                let routes = app.server_builder().into_service();
                BoxCloneService::new(routes.map_err(|e| TransportErr(e.to_string())))
            }
            Transport::H2 => {
                let (conn_tx, conn_rx) =
                    tokio::sync::mpsc::unbounded_channel::<Result<tokio::io::DuplexStream, std::io::Error>>();
                let router = app.server_builder();
                let incoming = tokio_stream::wrappers::UnboundedReceiverStream::new(conn_rx);
                server_task = Some(tokio::spawn(async move {
                    let _ = router.serve_with_incoming(incoming).await;
                }));
                let channel = tonic::transport::Endpoint::try_from("http://[::]:50051")
                    .unwrap()
                    .connect_with_connector(tower::service_fn(move |_: http::Uri| {
                        let conn_tx = conn_tx.clone();
                        async move {
                            let (c, s) = tokio::io::duplex(1 << 16);
                            conn_tx
                                .send(Ok(s))
                                .map_err(|_| std::io::Error::new(std::io::ErrorKind::Other, "server gone"))?;
                            Ok::<_, std::io::Error>(hyper_util::rt::TokioIo::new(c))
                        }
                    }))
                    .await
                    .expect("h2 connect");
                BoxCloneService::new(channel.map_err(|e| TransportErr(e.to_string())))
            }
        };
        if paused {
            if let Some(phase) = phase_ms {
                let epoch = deltio::subscriptions::verif_epoch();
                let now = Instant::now();
                let since = now.saturating_duration_since(epoch).as_nanos() as u64;
                let grid = 100 * MS;
                let off = since % grid;
                let to_grid = if off == 0 { 0 } else { grid - off };
                // Whole milliseconds only: the paused clock then stays on the timer wheel's 1 ms
                // ticks (tokio advances it by whole ticks and rounds deadlines up to ticks), so
                // whole-millisecond sleeps are exact and a probe "1 ms before the deadline"
                // really is. The grid phase keeps the random sub-millisecond part that the
                // runtime's start instant has relative to the process-wide epoch.
                let adv_ms = (to_grid + MS - 1) / MS + (phase % 100);
                if adv_ms > 0 {
                    tokio::time::advance(Duration::from_millis(adv_ms)).await;
                }
            }
        }
        Arc::new(World {
            app,
            svc: Mutex::new(svc),
            rec: Arc::new(Recorder::new()),
            tm,
            sm,
            reg,
            start: Instant::now(),
            transport,
            paused,
            barrier_rounds: if transport == Transport::H2 { 16 } else { 8 },
            barrier_cap: 10_000,
            settle_inconclusive: AtomicU64::new(0),
            server_task: Mutex::new(server_task),
            forward_ids: Mutex::new(Vec::new()),
            optional_fields: AtomicU64::new(0),
        })
    }

    pub fn svc(&self) -> Svc {
        self.svc.lock().unwrap().clone()
    }

    pub fn vt(&self) -> Vt {
        Instant::now().saturating_duration_since(self.start).as_nanos() as u64
    }

    /// Offset of the current instant on the 100 ms deadline grid, in ns.
    pub fn grid_phase(&self) -> u64 {
        let epoch = deltio::subscriptions::verif_epoch();
        (Instant::now().saturating_duration_since(epoch).as_nanos() as u64) % (100 * MS)
    }

    pub fn activity(&self) -> u64 {
        self.rec.activity() + deltio::verif::activity()
    }

    /// Waits until nothing else can run (DESIGN 3.1): a 1 ms sleep on the paused
    /// clock, then an activity barrier. Returns false when the barrier did not
    /// stabilise within its cap (inconclusive).
    pub async fn settle(&self) -> bool {
        if self.paused {
            tokio::time::sleep(Duration::from_millis(1)).await;
        } else {
            tokio::time::sleep(Duration::from_millis(2)).await;
        }
        self.barrier().await
    }

    /// The activity barrier alone (no time passes on a paused clock).
    pub async fn barrier(&self) -> bool {
        let mut last = self.activity();
        let mut stable = 0;
        for _ in 0..self.barrier_cap {
            tokio::task::yield_now().await;
            let a = self.activity();
            if a == last {
                stable += 1;
                if stable >= self.barrier_rounds {
                    return true;
                }
            } else {
                stable = 0;
                last = a;
            }
        }
        self.settle_inconclusive.fetch_add(1, Ordering::Relaxed);
        false
    }

    /// Lets virtual time pass (all timers in between fire in order), then settles.
    pub async fn advance(&self, d: Duration) -> bool {
        tokio::time::sleep(d).await;
        self.barrier().await
    }

    /// Reads the stats of a subscription through the hook (non-destructive).
    /// `None`: no such subscription (or its actor is gone / does not answer).
    pub async fn stats(&self, sub: &str) -> Option<SubStat> {
        let name = SubscriptionName::try_parse(sub)?;
        let s = self.sm.get_subscription(&name).ok()?;
        let fut = s.get_stats();
        match tokio::time::timeout(Duration::from_secs(30), fut).await {
            Ok(Ok(st)) => Some(SubStat {
                outstanding: st.outstanding_messages_count,
                backlog: st.backlog_messages_count,
                topic: st.topic_name.to_string(),
            }),
            _ => None,
        }
    }

    /// Records a quiescent observation for the given subscriptions.
    pub async fn quiesce(&self, subs: &[String], waiting: BTreeMap<String, Vec<u64>>) -> BTreeMap<String, SubStat> {
        let mut stats = BTreeMap::new();
        for s in subs {
            if let Some(st) = self.stats(s).await {
                stats.insert(s.clone(), st);
            }
        }
        self.rec.push(
            self.vt(),
            0,
            EvKind::Quiesce {
                stats: stats.clone(),
                waiting,
            },
        );
        stats
    }

    pub fn note(&self, s: impl Into<String>) {
        self.rec.push(self.vt(), 0, EvKind::Note(s.into()));
    }

    pub fn history(&self) -> History {
        let evs = self.rec.snapshot();
        let published = self.rec.published.lock().unwrap().clone();
        History::build(evs, published)
    }

    pub fn shutdown(&self) {
        if let Some(t) = self.server_task.lock().unwrap().take() {
            t.abort();
        }
    }
}

// ---- panic monitor -------------------------------------------------------------------------

static PANICS: Mutex<Vec<String>> = Mutex::new(Vec::new());
static PANIC_COUNT: AtomicU64 = AtomicU64::new(0);

pub fn install_panic_monitor() {
    std::panic::set_hook(Box::new(|info| {
        PANIC_COUNT.fetch_add(1, Ordering::SeqCst);
        let loc = info
            .location()
            .map(|l| format!("{}:{}", l.file(), l.line()))
            .unwrap_or_else(|| "?".into());
        let msg = if let Some(s) = info.payload().downcast_ref::<&str>() {
            s.to_string()
        } else if let Some(s) = info.payload().downcast_ref::<String>() {
            s.clone()
        } else {
            "?".into()
        };
        if msg.contains("unsafe precondition") || msg.contains("cannot unwind") {
            // the process is about to abort: the runner classifies the stderr tail
            eprintln!("NON-UNWINDING PANIC: {} @ {}", msg, loc);
        }
        let mut p = PANICS.lock().unwrap_or_else(|e| e.into_inner());
        if p.len() < 64 {
            p.push(format!("{} @ {}", trunc(&msg, 200), loc));
        }
    }));
}

pub fn panic_count() -> u64 {
    PANIC_COUNT.load(Ordering::SeqCst)
}

pub fn take_panics() -> Vec<String> {
    std::mem::take(&mut *PANICS.lock().unwrap_or_else(|e| e.into_inner()))
}
