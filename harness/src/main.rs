//! dvsim: deterministic virtual-time simulator and monitors for deltio (DESIGN 3).
#![allow(dead_code, unused_imports, clippy::all)]

mod checks;
mod client;
mod endpoint;
mod model;
mod seq;
mod rec;
mod report;
mod rng;
mod scen;
mod world;

use report::*;
use serde_json::json;
use std::collections::BTreeMap;

fn usage() -> ! {
    eprintln!(
        "usage:\n  dvsim run <scenario> [--seed S] [--tier quick|thorough] [--episodes N] [--shard i --shards n]\n            [--transport direct|h2] [--engine sim|mt|miri] [--out FILE] [-p k=v]...\n  dvsim replay <file.json>\n  dvsim list"
    );
    std::process::exit(2)
}

fn mix(a: u64, b: u64) -> u64 {
    let mut r = rng::Rng::new(a ^ b.wrapping_mul(0x9E37_79B9_7F4A_7C15));
    r.next()
}

fn main() {
    world::touch_epoch();
    world::install_panic_monitor();
    let args: Vec<String> = std::env::args().collect();
    if args.len() < 2 {
        usage();
    }
    match args[1].as_str() {
        "list" => {
            for s in scen::names() {
                println!("{}", s);
            }
        }
        "run" => cmd_run(&args[2..]),
        "replay" => cmd_replay(&args[2..]),
        _ => usage(),
    }
}

struct RunArgs {
    scenario: String,
    seed: u64,
    tier: String,
    episodes: Option<u64>,
    shard: u64,
    shards: u64,
    transport: String,
    engine: String,
    out: Option<String>,
    extra: BTreeMap<String, String>,
    verbose: bool,
}

fn parse_run(args: &[String]) -> RunArgs {
    if args.is_empty() {
        usage();
    }
    let mut r = RunArgs {
        scenario: args[0].clone(),
        seed: 1,
        tier: "quick".into(),
        episodes: None,
        shard: 0,
        shards: 1,
        transport: "direct".into(),
        engine: "sim".into(),
        out: None,
        extra: BTreeMap::new(),
        verbose: false,
    };
    let mut i = 1;
    while i < args.len() {
        let a = args[i].as_str();
        let mut val = || {
            i += 1;
            args.get(i).cloned().unwrap_or_else(|| usage())
        };
        match a {
            "--seed" => r.seed = val().parse().unwrap_or(1),
            "--tier" => r.tier = val(),
            "--episodes" => r.episodes = val().parse().ok(),
            "--shard" => r.shard = val().parse().unwrap_or(0),
            "--shards" => r.shards = val().parse().unwrap_or(1),
            "--transport" => r.transport = val(),
            "--engine" => r.engine = val(),
            "--out" => r.out = Some(val()),
            "-v" => r.verbose = true,
            "-p" => {
                let kv = val();
                if let Some((k, v)) = kv.split_once('=') {
                    r.extra.insert(k.to_string(), v.to_string());
                }
            }
            _ => usage(),
        }
        i += 1;
    }
    r
}

fn cmd_run(args: &[String]) {
    let a = parse_run(args);
    if a.engine != "miri" {
        let limit = a.extra.get("watchdog_s").and_then(|s| s.parse().ok()).unwrap_or(120);
        start_watchdog(limit);
    }
    let Some(sc) = scen::find(&a.scenario) else {
        eprintln!("unknown scenario {}", a.scenario);
        std::process::exit(2);
    };
    let t0 = std::time::Instant::now();
    let base = EpParams {
        scenario: a.scenario.clone(),
        ep_seed: 0,
        transport: a.transport.clone(),
        tier: a.tier.clone(),
        engine: a.engine.clone(),
        extra: a.extra.clone(),
    };
    let plan = (sc.plan)(&base);
    let total = a.episodes.unwrap_or(plan.episodes);
    let mut shard = ShardReport::default();
    let budget_s: Option<u64> = a.extra.get("budget_s").and_then(|s| s.parse().ok());
    let mut truncated = false;
    let mut partials_written = 0;
    // This shard's episodes, in a fixed scrambled order: if the time budget cuts the run short, what
    // was run is a sample of every family of the plan and not just of its first families.
    let mut order: Vec<u64> = (a.shard..total).step_by(a.shards.max(1) as usize).collect();
    order.sort_by_key(|i| mix(0x0BAD_5EED, *i));
    for idx in order {
        if let Some(b) = budget_s {
            if t0.elapsed().as_secs() >= b {
                truncated = true;
                break;
            }
        }
        let mut p = base.clone();
        p.ep_seed = mix(mix(a.seed, rng::fnv_str(&a.scenario)), idx);
        p.extra.insert("index".into(), idx.to_string());
        let r = run_episode(&sc, &p, &mut shard);
        // What has been found is put on disk at once (the first few times): a shard that dies in a
        // later episode - killed by a watchdog, or crashed - must not take its findings with it.
        if r.2 > 0 && partials_written < 4 {
            if let Some(f) = &a.out {
                let mut j = shard.to_json();
                j["partial"] = json!(true);
                let _ = std::fs::write(format!("{}.partial", f), serde_json::to_string(&j).unwrap_or_default());
                partials_written += 1;
            }
        }
        if a.verbose {
            eprintln!("episode {} key={} nontrivial={} violations={}", idx, r.0, r.1, r.2);
        }
    }
    shard.panics = world::take_panics();
    let mut j = shard.to_json();
    j["scenario"] = json!(a.scenario);
    j["seed"] = json!(a.seed);
    j["tier"] = json!(a.tier);
    j["transport"] = json!(a.transport);
    j["engine"] = json!(a.engine);
    j["planned_total"] = json!(total);
    j["exhaustive_plan"] = json!(plan.exhaustive && a.episodes.is_none() && !truncated);
    j["truncated"] = json!(truncated);
    j["rule"] = json!(plan.rule);
    j["wall_s"] = json!(t0.elapsed().as_secs_f64());
    let s = serde_json::to_string(&j).unwrap();
    match a.out {
        Some(f) => std::fs::write(f, s).expect("write report"),
        None => println!("{}", s),
    }
}

/// Wall-clock start (ms since process start) of the running episode, 0 when idle.
static EPISODE_STARTED_MS: std::sync::atomic::AtomicU64 = std::sync::atomic::AtomicU64::new(0);
static EPISODE_LABEL: std::sync::Mutex<String> = std::sync::Mutex::new(String::new());

/// A generous wall-clock watchdog around every episode. Virtual-time episodes take
/// milliseconds; one that does not finish is reported by the runner as inconclusive
/// (never as a violation) and makes the run incomplete.
fn start_watchdog(limit_s: u64) {
    let t0 = std::time::Instant::now();
    std::thread::spawn(move || {
        // livelock window: (start instant, client-visible events, hook points) at the last moment
        // a client-visible event was recorded
        let mut win = (std::time::Instant::now(), 0u64, 0u64);
        loop {
        std::thread::sleep(std::time::Duration::from_millis(500));
        let started = EPISODE_STARTED_MS.load(std::sync::atomic::Ordering::SeqCst);
        if started == 0 {
            win = (std::time::Instant::now(), rec::GLOBAL_EVENTS.load(std::sync::atomic::Ordering::Relaxed), deltio::verif::activity());
            continue;
        }
        // A server that spins: millions of actor turns / mailbox sends without a single
        // client-visible event (no call issued or returned, nothing delivered). Decided on work
        // done, not on elapsed time: a slow machine does little, it does not do millions of
        // turns for nobody.
        let ev = rec::GLOBAL_EVENTS.load(std::sync::atomic::Ordering::Relaxed);
        let hp = deltio::verif::activity();
        if ev != win.1 || LIVELOCK_OFF.load(std::sync::atomic::Ordering::SeqCst) {
            win = (std::time::Instant::now(), ev, hp);
        } else if hp.saturating_sub(win.2) >= 5_000_000 && win.0.elapsed().as_secs() >= 10 {
            eprintln!(
                "EPISODE-LIVELOCK: {}: {} hook points (actor turns, mailbox sends, replies) in {} s without one client-visible event",
                EPISODE_LABEL.lock().unwrap(),
                hp - win.2,
                win.0.elapsed().as_secs()
            );
            std::process::exit(98);
        }
        let now = t0.elapsed().as_millis() as u64 + 1;
        if now.saturating_sub(started) > limit_s * 1000 {
            eprintln!("EPISODE-WATCHDOG: {} did not finish within {} s of wall time", EPISODE_LABEL.lock().unwrap(), limit_s);
            std::process::exit(97);
        }
        }
    });
    WATCHDOG_T0.get_or_init(|| t0);
}

static WATCHDOG_T0: std::sync::OnceLock<std::time::Instant> = std::sync::OnceLock::new();

/// Set by scenarios in which the server legitimately works without client-visible events (a push
/// loop ticking every millisecond over hundreds of subscriptions) and which judge progress themselves.
pub static LIVELOCK_OFF: std::sync::atomic::AtomicBool = std::sync::atomic::AtomicBool::new(false);

fn run_episode(sc: &scen::Scenario, p: &EpParams, shard: &mut ShardReport) -> (String, bool, usize) {
    if let Some(t0) = WATCHDOG_T0.get() {
        *EPISODE_LABEL.lock().unwrap() = format!("scenario={} index={} ep_seed={}", p.scenario, p.get("index").unwrap_or("?"), p.ep_seed);
        EPISODE_STARTED_MS.store(t0.elapsed().as_millis() as u64 + 1, std::sync::atomic::Ordering::SeqCst);
    }
    let r = run_episode_inner(sc, p, shard);
    EPISODE_STARTED_MS.store(0, std::sync::atomic::Ordering::SeqCst);
    r
}

fn run_episode_inner(sc: &scen::Scenario, p: &EpParams, shard: &mut ShardReport) -> (String, bool, usize) {
    let panics_before = world::panic_count();
    let yields = p.get("yields").map(|v| v != "0").unwrap_or(true);
    deltio::verif::install(p.ep_seed ^ 0x5EED, yields);
    let res = std::panic::catch_unwind(std::panic::AssertUnwindSafe(|| (sc.run)(p)));
    let hooks = deltio::verif::uninstall();
    for (k, v) in hooks {
        *shard.hooks.entry(k).or_insert(0) += v;
    }
    let mut r = match res {
        Ok(r) => r,
        Err(_) => {
            let mut r = EpReport::default();
            r.inconclusive("harness-panic".to_string());
            r
        }
    };
    // calls that never got a reply on the paused clock: the server wedged (C07), whatever the
    // scenario was looking for
    let no_replies: Vec<String> = std::mem::take(&mut *client::NO_REPLIES.lock().unwrap_or_else(|e| e.into_inner()));
    if !no_replies.is_empty() {
        let mut kinds: Vec<&str> = no_replies.iter().map(|s| s.as_str()).collect();
        kinds.sort();
        kinds.dedup();
        r.viol("C07", format!("C07:Q-term:no-reply{{{}}}", kinds.join(",")), format!("{} call(s) got no reply within two virtual hours in scenario {}", no_replies.len(), p.scenario));
        r.inconclusive(format!("server wedged during a {} episode (calls without reply)", p.scenario));
        r.add("calls_without_reply", no_replies.len() as u64);
    }
    let new_panics = world::panic_count() - panics_before;
    if new_panics > 0 {
        r.add("panics_observed", new_panics);
    }
    let out = (r.key.clone(), r.nontrivial, r.violations.len());
    shard.merge(p, r, 3);
    out
}

fn cmd_replay(args: &[String]) {
    if args.is_empty() {
        usage();
    }
    let text = std::fs::read_to_string(&args[0]).expect("read replay file");
    let v: serde_json::Value = serde_json::from_str(&text).expect("replay json");
    let pv = &v["params"];
    let mut extra = BTreeMap::new();
    if let Some(m) = pv["extra"].as_object() {
        for (k, val) in m {
            extra.insert(k.clone(), val.as_str().unwrap_or("").to_string());
        }
    }
    let p = EpParams {
        scenario: pv["scenario"].as_str().unwrap_or("").to_string(),
        ep_seed: pv["ep_seed"].as_u64().unwrap_or(0),
        transport: pv["transport"].as_str().unwrap_or("direct").to_string(),
        tier: pv["tier"].as_str().unwrap_or("quick").to_string(),
        engine: pv["engine"].as_str().unwrap_or("sim").to_string(),
        extra,
    };
    let Some(sc) = scen::find(&p.scenario) else {
        eprintln!("unknown scenario {}", p.scenario);
        std::process::exit(2);
    };
    let mut shard = ShardReport::default();
    run_episode(&sc, &p, &mut shard);
    let want = v["sig"].as_str().unwrap_or("");
    let mut hit = false;
    for viol in &shard.violations {
        println!("violation {} :: {}", viol["sig"].as_str().unwrap_or(""), viol["detail"].as_str().unwrap_or(""));
        if viol["sig"].as_str() == Some(want) {
            hit = true;
        }
        if let Some(h) = viol["history"].as_array() {
            for l in h.iter().take(400) {
                println!("  {}", l.as_str().unwrap_or(""));
            }
        }
    }
    if shard.violations.is_empty() {
        println!("no violation in this episode (inconclusive: {:?})", shard.inconclusive);
    }
    println!("replayed scenario={} ep_seed={} reproduced={}", p.scenario, p.ep_seed, hit);
    std::process::exit(if shard.violations.is_empty() { 0 } else { 1 });
}
