//! Simulated clients: the real generated gRPC clients, wrapped so that every
//! call is recorded at the client boundary.

use crate::rec::*;
use crate::rng::fnv;
use crate::world::*;
use deltio::pubsub_proto as pb;
use deltio::pubsub_proto::publisher_client::PublisherClient;
use deltio::pubsub_proto::subscriber_client::SubscriberClient;
use futures::FutureExt;
use std::collections::{BTreeMap, HashMap};
use std::future::Future;
use std::panic::AssertUnwindSafe;
use std::pin::Pin;
use std::sync::atomic::{AtomicBool, AtomicU32, Ordering};
use std::sync::{Arc, Mutex};
use std::task::{Context, Poll};
use tonic::Status;

/// What to publish.
#[derive(Clone, Debug)]
pub struct Msg {
    pub tag: String,
    pub data: Vec<u8>,
    pub attrs: HashMap<String, String>,
}

impl Msg {
    /// A small tagged message: tag in the data and in the `tag` attribute.
    pub fn tagged(tag: &str) -> Msg {
        let mut attrs = HashMap::new();
        attrs.insert("tag".to_string(), tag.to_string());
        Msg {
            tag: tag.to_string(),
            data: format!("T:{}", tag).into_bytes(),
            attrs,
        }
    }
}

pub fn attrs_hash(attrs: &HashMap<String, String>) -> u64 {
    let sorted: BTreeMap<&String, &String> = attrs.iter().collect();
    let mut buf = Vec::new();
    for (k, v) in sorted {
        buf.extend_from_slice(&(k.len() as u32).to_le_bytes());
        buf.extend_from_slice(k.as_bytes());
        buf.extend_from_slice(&(v.len() as u32).to_le_bytes());
        buf.extend_from_slice(v.as_bytes());
    }
    fnv(&buf)
}

pub fn extract_tag(data: &[u8], attrs: &HashMap<String, String>) -> String {
    if let Some(t) = attrs.get("tag") {
        return t.clone();
    }
    if data.starts_with(b"T:") {
        // the tag ends at the first '|' (arbitrary padding may follow)
        let end = data.iter().position(|b| *b == b'|').unwrap_or(data.len());
        if let Ok(s) = std::str::from_utf8(&data[2..end]) {
            return s.to_string();
        }
    }
    String::new()
}

/// A client context: one simulated client.
#[derive(Clone)]
pub struct Cx {
    pub w: Arc<World>,
    pub id: u32,
}

struct OpGuard<'a> {
    cx: &'a Cx,
    op_id: u64,
    done: bool,
    polls: Arc<AtomicU32>,
}

impl Drop for OpGuard<'_> {
    fn drop(&mut self) {
        if !self.done {
            self.cx.w.rec.push(
                self.cx.w.vt(),
                self.cx.id,
                EvKind::Cancel {
                    op_id: self.op_id,
                    polls: self.polls.load(Ordering::Relaxed),
                },
            );
        }
    }
}

/// Marker of a call that got no reply within two virtual hours (paused clock): on the paused
/// clock that much time passes only if nothing can run, so the call can never complete.
pub const NO_REPLY: &str = "NO-REPLY within two virtual hours";

pub static NO_REPLIES: Mutex<Vec<String>> = Mutex::new(Vec::new());

/// Bounds a client call on the paused clock (so that a wedged server shows up as a verdict,
/// not as a harness that never finishes). Real-time runs rely on their wall-clock watchdogs.
async fn bounded<T>(paused: bool, what: &'static str, fut: impl Future<Output = Result<T, Status>>) -> Result<T, Status> {
    if !paused {
        return fut.await;
    }
    match tokio::time::timeout(std::time::Duration::from_secs(7200), fut).await {
        Ok(r) => r,
        Err(_) => {
            let mut v = NO_REPLIES.lock().unwrap_or_else(|e| e.into_inner());
            if v.len() < 100 {
                v.push(what.to_string());
            }
            Err(Status::deadline_exceeded(NO_REPLY))
        }
    }
}

fn status_out(s: &Status) -> Out {
    Out::Status(s.code() as i32, s.message().to_string())
}

fn panic_msg(p: Box<dyn std::any::Any + Send>) -> String {
    if let Some(s) = p.downcast_ref::<&str>() {
        s.to_string()
    } else if let Some(s) = p.downcast_ref::<String>() {
        s.clone()
    } else {
        "panic".into()
    }
}

pub fn sub_view(s: &pb::Subscription) -> SubView {
    SubView {
        name: s.name.clone(),
        topic: s.topic.clone(),
        deadline_s: s.ack_deadline_seconds,
        push_endpoint: s.push_config.as_ref().map(|p| p.push_endpoint.clone()),
        push_attrs: s
            .push_config
            .as_ref()
            .map(|p| p.attributes.iter().map(|(k, v)| (k.clone(), v.clone())).collect())
            .unwrap_or_default(),
    }
}

pub fn delivery_from(op_id: u64, via: Via, resp_no: u32, idx: u32, sub: &str, rm: &pb::ReceivedMessage) -> Delivery {
    let (msg_id, tag, dh, dl, ah, pt) = match &rm.message {
        Some(m) => (
            m.message_id.clone(),
            extract_tag(&m.data, &m.attributes),
            fnv(&m.data),
            m.data.len(),
            attrs_hash(&m.attributes),
            m.publish_time.as_ref().map(|t| (t.seconds, t.nanos)).unwrap_or((0, 0)),
        ),
        None => (String::new(), String::new(), 0, 0, 0, (0, 0)),
    };
    Delivery {
        op_id,
        via,
        resp_no,
        idx,
        sub: sub.to_string(),
        ack_id: rm.ack_id.clone(),
        msg_id,
        tag,
        data_hash: dh,
        data_len: dl,
        attrs_hash: ah,
        publish_time: pt,
    }
}

impl Cx {
    pub fn new(w: &Arc<World>, id: u32) -> Cx {
        Cx { w: Arc::clone(w), id }
    }

    fn publisher(&self) -> PublisherClient<Svc> {
        PublisherClient::new(self.w.svc())
            .max_decoding_message_size(64 << 20)
            .max_encoding_message_size(64 << 20)
    }

    fn subscriber(&self) -> SubscriberClient<Svc> {
        SubscriberClient::new(self.w.svc())
            .max_decoding_message_size(64 << 20)
            .max_encoding_message_size(64 << 20)
    }

    fn call(&self, op: Op) -> OpGuard<'_> {
        let op_id = self.w.rec.new_op_id();
        self.w.rec.push(self.w.vt(), self.id, EvKind::Call { op_id, op });
        OpGuard {
            cx: self,
            op_id,
            done: false,
            polls: Arc::new(AtomicU32::new(0)),
        }
    }

    fn ret(&self, mut g: OpGuard<'_>, out: Out) -> u64 {
        g.done = true;
        self.w.rec.push(self.w.vt(), self.id, EvKind::Ret { op_id: g.op_id, out });
        g.op_id
    }

    /// Runs a unary call with recording and panic capture. `f` maps the reply to
    /// the recorded outcome.
    async fn unary<T, Fut, M>(&self, op: Op, fut: Fut, map: M) -> (u64, Result<T, Status>)
    where
        Fut: Future<Output = Result<tonic::Response<T>, Status>>,
        M: FnOnce(&T) -> Out,
    {
        let kind = op.kind();
        let g = self.call(op);
        let polls = Arc::clone(&g.polls);
        let counted = CountPolls { inner: bounded(self.w.paused, kind, fut), polls };
        let res = AssertUnwindSafe(counted).catch_unwind().await;
        match res {
            Ok(Ok(resp)) => {
                let v = resp.into_inner();
                let out = map(&v);
                let id = self.ret(g, out);
                (id, Ok(v))
            }
            Ok(Err(st)) => {
                let id = self.ret(g, status_out(&st));
                (id, Err(st))
            }
            Err(p) => {
                let m = panic_msg(p);
                let id = self.ret(g, Out::Panic(m.clone()));
                (id, Err(Status::unknown(format!("PANIC: {}", m))))
            }
        }
    }

    pub async fn create_topic(&self, name: &str) -> Result<String, Status> {
        let mut c = self.publisher();
        let req = pb::Topic {
            name: name.to_string(),
            ..Default::default()
        };
        self.unary(Op::CreateTopic { name: name.into() }, c.create_topic(req), |t| Out::Topic(t.name.clone()))
            .await
            .1
            .map(|t| t.name)
    }

    pub async fn delete_topic(&self, name: &str) -> Result<(), Status> {
        let mut c = self.publisher();
        let req = pb::DeleteTopicRequest { topic: name.to_string() };
        self.unary(Op::DeleteTopic { name: name.into() }, c.delete_topic(req), |_| Out::Ok).await.1
    }

    pub async fn get_topic(&self, name: &str) -> Result<String, Status> {
        let mut c = self.publisher();
        let req = pb::GetTopicRequest { topic: name.to_string() };
        self.unary(Op::GetTopic { name: name.into() }, c.get_topic(req), |t| Out::Topic(t.name.clone()))
            .await
            .1
            .map(|t| t.name)
    }

    pub async fn list_topics(&self, project: &str, size: i32, token: &str) -> Result<(Vec<String>, String), Status> {
        let mut c = self.publisher();
        let req = pb::ListTopicsRequest {
            project: project.into(),
            page_size: size,
            page_token: token.into(),
        };
        self.unary(
            Op::ListTopics {
                project: project.into(),
                size,
                token: token.into(),
            },
            c.list_topics(req),
            |r| Out::Names {
                names: r.topics.iter().map(|t| t.name.clone()).collect(),
                next: r.next_page_token.clone(),
            },
        )
        .await
        .1
        .map(|r| (r.topics.into_iter().map(|t| t.name).collect(), r.next_page_token))
    }

    pub async fn list_topic_subs(&self, topic: &str, size: i32, token: &str) -> Result<(Vec<String>, String), Status> {
        let mut c = self.publisher();
        let req = pb::ListTopicSubscriptionsRequest {
            topic: topic.into(),
            page_size: size,
            page_token: token.into(),
        };
        self.unary(
            Op::ListTopicSubs {
                topic: topic.into(),
                size,
                token: token.into(),
            },
            c.list_topic_subscriptions(req),
            |r| Out::Names {
                names: r.subscriptions.clone(),
                next: r.next_page_token.clone(),
            },
        )
        .await
        .1
        .map(|r| (r.subscriptions, r.next_page_token))
    }

    pub async fn list_subs(&self, project: &str, size: i32, token: &str) -> Result<(Vec<SubView>, String), Status> {
        let mut c = self.subscriber();
        let req = pb::ListSubscriptionsRequest {
            project: project.into(),
            page_size: size,
            page_token: token.into(),
        };
        self.unary(
            Op::ListSubs {
                project: project.into(),
                size,
                token: token.into(),
            },
            c.list_subscriptions(req),
            |r| Out::Subs {
                subs: r.subscriptions.iter().map(sub_view).collect(),
                next: r.next_page_token.clone(),
            },
        )
        .await
        .1
        .map(|r| (r.subscriptions.iter().map(sub_view).collect(), r.next_page_token))
    }

    pub async fn publish(&self, topic: &str, msgs: &[Msg]) -> Result<Vec<String>, Status> {
        self.publish_op(topic, msgs).await.1
    }

    pub async fn publish_op(&self, topic: &str, msgs: &[Msg]) -> (u64, Result<Vec<String>, Status>) {
        let mut c = self.publisher();
        let forward: Vec<String> = std::mem::take(&mut *self.w.forward_ids.lock().unwrap());
        // Every third request with several messages carries ordering keys (legal on any topic; a
        // subscription without message ordering treats them as plain messages): mixed, not sorted,
        // some empty.
        let nth = self.w.optional_fields.fetch_add(1, Ordering::Relaxed);
        let keyed = msgs.len() >= 2 && nth % 3 == 1;
        const KEYS: [&str; 5] = ["b", "a", "", "c", "a"];
        let req = pb::PublishRequest {
            topic: topic.into(),
            messages: msgs
                .iter()
                .enumerate()
                .map(|(i, m)| pb::PubsubMessage {
                    data: m.data.clone(),
                    attributes: m.attrs.clone(),
                    ordering_key: if keyed { KEYS[(i + nth as usize) % KEYS.len()].to_string() } else { String::new() },
                    // output-only fields a forwarding client leaves filled in: the server ignores them
                    message_id: forward.get(i).cloned().unwrap_or_default(),
                    publish_time: if forward.get(i).is_some() { Some(prost_types::Timestamp { seconds: 1, nanos: 1 }) } else { None },
                    ..Default::default()
                })
                .collect(),
        };
        let op = Op::Publish {
            topic: topic.into(),
            tags: msgs.iter().map(|m| m.tag.clone()).collect(),
        };
        // Register what is being published before the call is made.
        let g = self.call(op);
        {
            let mut p = self.w.rec.published.lock().unwrap();
            for (i, m) in msgs.iter().enumerate() {
                if !m.tag.is_empty() {
                    p.insert(
                        m.tag.clone(),
                        PubRecord {
                            op_id: g.op_id,
                            idx: i,
                            topic: topic.to_string(),
                            data_hash: fnv(&m.data),
                            data_len: m.data.len(),
                            attrs_hash: attrs_hash(&m.attrs),
                        },
                    );
                }
            }
        }
        let polls = Arc::clone(&g.polls);
        let res = AssertUnwindSafe(CountPolls {
            inner: bounded(self.w.paused, "Publish", c.publish(req)),
            polls,
        })
        .catch_unwind()
        .await;
        match res {
            Ok(Ok(resp)) => {
                let ids = resp.into_inner().message_ids;
                let id = self.ret(g, Out::Ids(ids.clone()));
                (id, Ok(ids))
            }
            Ok(Err(st)) => {
                let id = self.ret(g, status_out(&st));
                (id, Err(st))
            }
            Err(p) => {
                let m = panic_msg(p);
                let id = self.ret(g, Out::Panic(m.clone()));
                (id, Err(Status::unknown(format!("PANIC: {}", m))))
            }
        }
    }

    pub async fn create_sub(&self, name: &str, topic: &str, deadline_s: i32) -> Result<SubView, Status> {
        self.create_sub_full(name, topic, deadline_s, None, HashMap::new()).await
    }

    pub async fn create_sub_full(
        &self,
        name: &str,
        topic: &str,
        deadline_s: i32,
        push: Option<&str>,
        push_attrs: HashMap<String, String>,
    ) -> Result<SubView, Status> {
        let mut c = self.subscriber();
        let req = pb::Subscription {
            name: name.into(),
            topic: topic.into(),
            ack_deadline_seconds: deadline_s,
            push_config: push.map(|e| pb::PushConfig {
                push_endpoint: e.to_string(),
                attributes: push_attrs,
                authentication_method: None,
            }),
            ..Default::default()
        };
        self.unary(
            Op::CreateSub {
                name: name.into(),
                topic: topic.into(),
                deadline_s,
                push: push.map(|s| s.to_string()),
            },
            c.create_subscription(req),
            |s| Out::Sub(sub_view(s)),
        )
        .await
        .1
        .map(|s| sub_view(&s))
    }

    pub async fn get_sub(&self, name: &str) -> Result<SubView, Status> {
        let mut c = self.subscriber();
        let req = pb::GetSubscriptionRequest { subscription: name.into() };
        self.unary(Op::GetSub { name: name.into() }, c.get_subscription(req), |s| Out::Sub(sub_view(s)))
            .await
            .1
            .map(|s| sub_view(&s))
    }

    pub async fn delete_sub(&self, name: &str) -> Result<(), Status> {
        let mut c = self.subscriber();
        let req = pb::DeleteSubscriptionRequest { subscription: name.into() };
        self.unary(Op::DeleteSub { name: name.into() }, c.delete_subscription(req), |_| Out::Ok).await.1
    }

    /// Pull; deliveries are recorded between Call and Ret.
    pub async fn pull(&self, sub: &str, max: i32, ri: bool) -> Result<Vec<Delivery>, Status> {
        self.pull_op(sub, max, ri).await.1
    }

    pub async fn pull_op(&self, sub: &str, max: i32, ri: bool) -> (u64, Result<Vec<Delivery>, Status>) {
        let mut c = self.subscriber();
        #[allow(deprecated)]
        let req = pb::PullRequest {
            subscription: sub.into(),
            return_immediately: ri,
            max_messages: max,
        };
        let g = self.call(Op::Pull { sub: sub.into(), max, ri });
        let polls = Arc::clone(&g.polls);
        let res = AssertUnwindSafe(CountPolls { inner: bounded(self.w.paused, "Pull", c.pull(req)), polls }).catch_unwind().await;
        match res {
            Ok(Ok(resp)) => {
                let r = resp.into_inner();
                let mut ds = Vec::with_capacity(r.received_messages.len());
                for (i, rm) in r.received_messages.iter().enumerate() {
                    let d = delivery_from(g.op_id, Via::Pull, 0, i as u32, sub, rm);
                    self.w.rec.push(self.w.vt(), self.id, EvKind::Deliver(d.clone()));
                    ds.push(d);
                }
                let id = self.ret(g, Out::Pulled(ds.len()));
                (id, Ok(ds))
            }
            Ok(Err(st)) => {
                let id = self.ret(g, status_out(&st));
                (id, Err(st))
            }
            Err(p) => {
                let m = panic_msg(p);
                let id = self.ret(g, Out::Panic(m.clone()));
                (id, Err(Status::unknown(format!("PANIC: {}", m))))
            }
        }
    }

    pub async fn ack(&self, sub: &str, ids: &[String]) -> Result<(), Status> {
        let mut c = self.subscriber();
        let req = pb::AcknowledgeRequest {
            subscription: sub.into(),
            ack_ids: ids.to_vec(),
        };
        self.unary(
            Op::Ack {
                sub: sub.into(),
                ids: ids.to_vec(),
            },
            c.acknowledge(req),
            |_| Out::Ok,
        )
        .await
        .1
    }

    pub async fn modify(&self, sub: &str, ids: &[String], secs: i32) -> Result<(), Status> {
        let mut c = self.subscriber();
        let req = pb::ModifyAckDeadlineRequest {
            subscription: sub.into(),
            ack_ids: ids.to_vec(),
            ack_deadline_seconds: secs,
        };
        self.unary(
            Op::Modify {
                sub: sub.into(),
                ids: ids.to_vec(),
                secs,
            },
            c.modify_ack_deadline(req),
            |_| Out::Ok,
        )
        .await
        .1
    }

    /// Opens a StreamingPull with an arbitrary first message. The reader task
    /// drains the response side and records every delivery.
    pub async fn open_stream_raw(&self, first: pb::StreamingPullRequest) -> Result<StreamHandle, Status> {
        let sub = first.subscription.clone();
        let (tx, rx) = tokio::sync::mpsc::unbounded_channel::<pb::StreamingPullRequest>();
        let _ = tx.send(first.clone());
        let g = self.call(Op::StreamOpen {
            sub: sub.clone(),
            max_outstanding: first.max_outstanding_messages,
        });
        let op_id = g.op_id;
        let mut c = self.subscriber();
        let polls = Arc::clone(&g.polls);
        let fut = c.streaming_pull(tokio_stream::wrappers::UnboundedReceiverStream::new(rx));
        let res = AssertUnwindSafe(CountPolls { inner: bounded(self.w.paused, "StreamOpen", fut), polls }).catch_unwind().await;
        match res {
            Ok(Ok(resp)) => {
                self.ret(g, Out::Ok);
                let mut streaming = resp.into_inner();
                let state = Arc::new(StreamState {
                    deliveries: Mutex::new(Vec::new()),
                    ended: Mutex::new(None),
                    reading: AtomicBool::new(true),
                    paused: AtomicBool::new(false),
                    resume: tokio::sync::Notify::new(),
                });
                let st2 = Arc::clone(&state);
                let cx = self.clone();
                let sub2 = sub.clone();
                let reader = tokio::spawn(async move {
                    let mut resp_no = 0u32;
                    loop {
                        // a client that stopped reading: the response stream is not polled any more
                        while st2.paused.load(Ordering::SeqCst) {
                            st2.resume.notified().await;
                        }
                        let r = AssertUnwindSafe(streaming.message()).catch_unwind().await;
                        match r {
                            Ok(Ok(Some(m))) => {
                                let mut ds = st2.deliveries.lock().unwrap();
                                for (i, rm) in m.received_messages.iter().enumerate() {
                                    let d = delivery_from(op_id, Via::Stream, resp_no, i as u32, &sub2, rm);
                                    cx.w.rec.push(cx.w.vt(), cx.id, EvKind::Deliver(d.clone()));
                                    ds.push(d);
                                }
                                resp_no += 1;
                            }
                            Ok(Ok(None)) => {
                                *st2.ended.lock().unwrap() = Some(0);
                                cx.w.rec.push(cx.w.vt(), cx.id, EvKind::StreamEnd { op_id, code: 0 });
                                break;
                            }
                            Ok(Err(s)) => {
                                let code = s.code() as i32;
                                *st2.ended.lock().unwrap() = Some(code);
                                cx.w.rec.push(cx.w.vt(), cx.id, EvKind::StreamEnd { op_id, code });
                                break;
                            }
                            Err(_) => {
                                *st2.ended.lock().unwrap() = Some(-1);
                                cx.w.rec.push(cx.w.vt(), cx.id, EvKind::StreamEnd { op_id, code: -1 });
                                break;
                            }
                        }
                    }
                    st2.reading.store(false, Ordering::SeqCst);
                });
                Ok(StreamHandle {
                    cx: self.clone(),
                    op_id,
                    sub,
                    tx: Some(tx),
                    state,
                    reader: Some(reader),
                })
            }
            Ok(Err(st)) => {
                self.ret(g, status_out(&st));
                Err(st)
            }
            Err(p) => {
                let m = panic_msg(p);
                self.ret(g, Out::Panic(m.clone()));
                Err(Status::unknown(format!("PANIC: {}", m)))
            }
        }
    }

    pub async fn open_stream(&self, sub: &str, max_outstanding: i64) -> Result<StreamHandle, Status> {
        self.open_stream_raw(pb::StreamingPullRequest {
            subscription: sub.into(),
            stream_ack_deadline_seconds: 10,
            max_outstanding_messages: max_outstanding,
            ..Default::default()
        })
        .await
    }
}

pub struct StreamState {
    pub deliveries: Mutex<Vec<Delivery>>,
    /// None while open; Some(0) clean end; Some(code) error status; Some(-1) panic.
    pub ended: Mutex<Option<i32>>,
    pub reading: AtomicBool,
    /// The client stopped reading responses (takes effect after the response in flight).
    pub paused: AtomicBool,
    pub resume: tokio::sync::Notify,
}

pub struct StreamHandle {
    pub cx: Cx,
    pub op_id: u64,
    pub sub: String,
    tx: Option<tokio::sync::mpsc::UnboundedSender<pb::StreamingPullRequest>>,
    pub state: Arc<StreamState>,
    reader: Option<tokio::task::JoinHandle<()>>,
}

impl StreamHandle {
    pub fn ended(&self) -> Option<i32> {
        *self.state.ended.lock().unwrap()
    }

    pub fn deliveries(&self) -> Vec<Delivery> {
        self.state.deliveries.lock().unwrap().clone()
    }

    pub fn take_deliveries(&self) -> Vec<Delivery> {
        std::mem::take(&mut *self.state.deliveries.lock().unwrap())
    }

    pub fn request_side_open(&self) -> bool {
        self.tx.is_some()
    }

    /// Sends a control message. There is no reply to a control message; the
    /// recorded `Ret` only says that it was handed to the transport.
    pub fn send_raw(&self, req: pb::StreamingPullRequest) -> bool {
        let cx = &self.cx;
        let op_id = cx.w.rec.new_op_id();
        cx.w.rec.push(
            cx.w.vt(),
            cx.id,
            EvKind::Call {
                op_id,
                op: Op::StreamSend {
                    stream: self.op_id,
                    sub: self.sub.clone(),
                    acks: req.ack_ids.clone(),
                    mod_ids: req.modify_deadline_ack_ids.clone(),
                    mod_secs: req.modify_deadline_seconds.clone(),
                },
            },
        );
        let ok = match &self.tx {
            Some(tx) => tx.send(req).is_ok(),
            None => false,
        };
        cx.w.rec.push(
            cx.w.vt(),
            cx.id,
            EvKind::Ret {
                op_id,
                out: if ok { Out::Ok } else { Out::Status(-2, "request side closed".into()) },
            },
        );
        ok
    }

    pub fn send(&self, acks: &[String], mod_ids: &[String], mod_secs: &[i32]) -> bool {
        // Every third control message also carries the stream deadline (legal after the first
        // request: it only updates the deadline for later deliveries, which this server does not
        // use), every fifth a client id.
        let nth = self.cx.w.optional_fields.fetch_add(1, Ordering::Relaxed);
        self.send_raw(pb::StreamingPullRequest {
            ack_ids: acks.to_vec(),
            modify_deadline_ack_ids: mod_ids.to_vec(),
            modify_deadline_seconds: mod_secs.to_vec(),
            stream_ack_deadline_seconds: if nth % 3 == 1 { 10 + (nth % 591) as i32 } else { 0 },
            client_id: if nth % 5 == 2 { "c".into() } else { String::new() },
            ..Default::default()
        })
    }

    /// Closes the request side (half-close); the response side stays open.
    pub fn close_request_side(&mut self) {
        if self.tx.take().is_some() {
            let cx = &self.cx;
            let op_id = cx.w.rec.new_op_id();
            cx.w.rec.push(cx.w.vt(), cx.id, EvKind::Call { op_id, op: Op::StreamClose { stream: self.op_id } });
            cx.w.rec.push(cx.w.vt(), cx.id, EvKind::Ret { op_id, out: Out::Ok });
        }
    }

    /// Abandons the stream: the reader is aborted and both sides are dropped.
    pub fn abort(&mut self) {
        self.tx.take();
        if let Some(r) = self.reader.take() {
            if !r.is_finished() {
                r.abort();
                self.cx
                    .w
                    .rec
                    .push(self.cx.w.vt(), self.cx.id, EvKind::Cancel { op_id: self.op_id, polls: 0 });
            }
        }
        self.state.reading.store(false, Ordering::SeqCst);
    }

    /// An abort handle for the reader task (lets another task cancel the stream mid-flight).
    pub fn reader_abort_handle(&self) -> Option<tokio::task::AbortHandle> {
        self.reader.as_ref().map(|r| r.abort_handle())
    }

    /// The client stops reading responses (the handler then stalls at its next response).
    pub fn pause_reading(&self) {
        self.state.paused.store(true, Ordering::SeqCst);
    }

    pub fn resume_reading(&self) {
        self.state.paused.store(false, Ordering::SeqCst);
        self.state.resume.notify_one();
    }

    pub fn is_paused(&self) -> bool {
        self.state.paused.load(Ordering::SeqCst)
    }

    pub fn is_reading(&self) -> bool {
        !self.is_paused() && self.state.reading.load(Ordering::SeqCst) && self.ended().is_none() && self.reader.as_ref().map(|r| !r.is_finished()).unwrap_or(false)
    }
}

impl Drop for StreamHandle {
    fn drop(&mut self) {
        if let Some(r) = self.reader.take() {
            r.abort();
        }
    }
}

/// Counts polls of the wrapped future.
pub struct CountPolls<F> {
    inner: F,
    polls: Arc<AtomicU32>,
}

impl<F: Future> Future for CountPolls<F> {
    type Output = F::Output;
    fn poll(self: Pin<&mut Self>, cx: &mut Context<'_>) -> Poll<Self::Output> {
        // SAFETY: plain structural pin projection; `inner` is never moved.
        let this = unsafe { self.get_unchecked_mut() };
        this.polls.fetch_add(1, Ordering::Relaxed);
        unsafe { Pin::new_unchecked(&mut this.inner) }.poll(cx)
    }
}

/// Polls the inner future at most `left` times, then drops it (abandonment at
/// the k-th suspension point). Resolves to `None` when the future was dropped.
pub struct Limit<F> {
    inner: Option<Pin<Box<F>>>,
    left: usize,
    pub polls: usize,
}

impl<F: Future> Limit<F> {
    pub fn new(f: F, k: usize) -> Self {
        Limit {
            inner: Some(Box::pin(f)),
            left: k,
            polls: 0,
        }
    }
}

impl<F: Future> Future for Limit<F> {
    type Output = (Option<F::Output>, usize);
    fn poll(mut self: Pin<&mut Self>, cx: &mut Context<'_>) -> Poll<Self::Output> {
        let this = &mut *self;
        let Some(inner) = this.inner.as_mut() else {
            return Poll::Ready((None, this.polls));
        };
        if this.left == 0 {
            this.inner = None;
            return Poll::Ready((None, this.polls));
        }
        this.left -= 1;
        this.polls += 1;
        match inner.as_mut().poll(cx) {
            Poll::Ready(v) => {
                this.inner = None;
                Poll::Ready((Some(v), this.polls))
            }
            Poll::Pending => {
                if this.left == 0 {
                    // Drop right here, at the suspension point.
                    this.inner = None;
                    Poll::Ready((None, this.polls))
                } else {
                    Poll::Pending
                }
            }
        }
    }
}
