"""C19 jobs (native stress + Miri many-seeds)."""


def run(pid, job, seed, tier, work):
    raise NotImplementedError
