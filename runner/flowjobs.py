"""C19 jobs: native thread stress (flowcheck native) and Miri many-seeds (flowcheck miri)."""
import json
import os
import re
import subprocess
import time
from concurrent.futures import ThreadPoolExecutor

import engines


def run(pid, job, seed, tier, work):
    if job["engine"] == "flow":
        return run_native(pid, job, seed, tier, work)
    return run_miri(pid, job, seed, tier, work)


def _empty(job):
    return {"job": job, "episodes": 0, "nontrivial": 0, "keys": set(), "violations": [], "inconclusive": {}, "counters": {},
            "minmax": {}, "samples": [], "hooks": {}, "panics": [], "rule": "", "exhaustive": False, "shards": 0, "infra_error": None}


def run_native(pid, job, seed, tier, work):
    t0 = time.time()
    res = _empty(job)
    shards = job.get("shards", engines.NCPU)
    trials = job["trials"] // shards
    binp = engines.ENGINES["flow"]["bin"]

    def one(i):
        out = os.path.join(work, "%s-%d.json" % (job["name"], i))
        try:
            p = subprocess.run([binp, "native", "--trials", str(trials), "--seed", str(seed * 1000 + i), "--out", out],
                               stdout=subprocess.PIPE, stderr=subprocess.PIPE, text=True, timeout=job.get("timeout_s", 900))
            return out, p.returncode, p.stderr[-2000:]
        except subprocess.TimeoutExpired:
            return out, "timeout", ""

    with ThreadPoolExecutor(max_workers=shards) as ex:
        outs = list(ex.map(one, range(shards)))
    res["shards"] = shards
    for out, rc, err in outs:
        if rc == "timeout":
            res["inconclusive"]["shard-watchdog(%s)" % job["name"]] = res["inconclusive"].get("shard-watchdog(%s)" % job["name"], 0) + 1
            continue
        if rc != 0 or not os.path.exists(out):
            res["infra_error"] = "flowcheck native exited rc=%s: %s" % (rc, err[-500:])
            continue
        d = json.load(open(out))
        res["episodes"] += d["episodes"]
        res["nontrivial"] += d["nontrivial"]
        res["keys"].update(d["keys"])
        for v in d["violations"]:
            v["job"] = job["name"]
            res["violations"].append(v)
        for k, n in d["inconclusive"].items():
            res["inconclusive"][k] = res["inconclusive"].get(k, 0) + n
        for k, n in d["counters"].items():
            res["counters"][k] = res["counters"].get(k, 0) + n
        if len(res["samples"]) < 2:
            res["samples"].extend(d["samples"][:1])
        res["rule"] = d["rule"]
    res["distinct"] = len(res["keys"])
    res["wall_s"] = time.time() - t0
    return res


def run_miri(pid, job, seed, tier, work):
    """`flowcheck miri --script k` under -Zmiri-many-seeds, sharded by seed range and script."""
    t0 = time.time()
    res = _empty(job)
    n_seeds = job["seeds"]
    shards = job.get("shards", engines.NCPU)
    per = max(1, n_seeds // shards)
    base = (seed % 1000) * 100000
    env = dict(engines.BASE_ENV)
    env["RUSTFLAGS"] = engines.CFG

    def one(i):
        lo = base + i * per
        hi = lo + per
        e = dict(env)
        e["MIRIFLAGS"] = "-Zmiri-disable-isolation -Zmiri-many-seeds=%d..%d" % (lo, hi)
        cmd = ["cargo", "+nightly", "miri", "run", "--offline", "--bin", "flowcheck", "--target-dir",
               os.path.join(engines.HARNESS, "target-miri"), "--", "miri", "--script", str(i % 8)]
        try:
            p = subprocess.run(cmd, cwd=engines.HARNESS, env=e, stdout=subprocess.PIPE, stderr=subprocess.PIPE, text=True,
                               timeout=job.get("timeout_s", 1500))
            return i, lo, hi, p.returncode, p.stdout, p.stderr[-6000:], cmd
        except subprocess.TimeoutExpired as ex:
            return i, lo, hi, "timeout", (ex.stdout or b"").decode("utf8", "replace") if isinstance(ex.stdout, bytes) else "", "", cmd

    with ThreadPoolExecutor(max_workers=shards) as ex:
        outs = list(ex.map(one, range(shards)))
    res["shards"] = shards
    res["rule"] = ("Miri interpreter, seeded preemptive thread scheduling (-Zmiri-many-seeds) over 7 scripts with 1-2 waiter threads and 1-2 mutator "
                   "threads on the real FlowControl; Miri additionally checks data races, weak-memory behaviours and deadlock. Non-trivial: a "
                   "waiter parked at least once. Distinct: (script, poll-count vector) over seeds.")
    for i, lo, hi, rc, out, err, cmd in outs:
        oks = re.findall(r"^FLOW ok (.*)$", out, re.M)
        res["episodes"] += len(oks)
        for line in oks:
            if "parked=0" not in line:
                res["nontrivial"] += 1
                res["keys"].add(hash(line) & 0xFFFFFFFFFFFF)
            if len(res["samples"]) < 2:
                res["samples"].append({"miri_seed_range": [lo, hi], "line": line})
        if rc == "timeout":
            k = "shard-watchdog(%s)" % job["name"]
            res["inconclusive"][k] = res["inconclusive"].get(k, 0) + 1
            continue
        if rc != 0:
            m = re.search(r"FLOW VIOLATION (\S+) (.*)", out)
            sig, detail = engines.classify_crash(err)
            if m:
                sig, detail = m.group(1).split(":", 1)[1], m.group(2)[:500]
            if sig:
                failing = re.findall(r"seed (\d+)", err)
                res["violations"].append({"property": "C19", "sig": "C19:%s" % sig, "detail": (detail or "") + (" (failing Miri seeds: %s)" % ",".join(failing[:5]) if failing else ""),
                                          "params": {"scenario": "flow-miri", "ep_seed": lo, "cmd": "MIRIFLAGS='-Zmiri-disable-isolation -Zmiri-many-seeds=%d..%d' %s" % (lo, hi, " ".join(cmd))},
                                          "history": err.splitlines()[-40:], "job": job["name"]})
            else:
                res["infra_error"] = "miri shard %d rc=%s: %s" % (i, rc, err[-600:])
    res["counters"]["miri_executions"] = res["episodes"]
    res["distinct"] = len(res["keys"])
    res["wall_s"] = time.time() - t0
    return res
