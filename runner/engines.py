"""Engines: how the harness binaries are built and fanned out (DESIGN 3)."""
import fcntl
import json
import os
import subprocess
import sys
import time
from concurrent.futures import ThreadPoolExecutor

ROOT = os.path.dirname(os.path.dirname(os.path.abspath(__file__)))
HARNESS = os.path.join(ROOT, "harness")
NCPU = int(os.environ.get("VERIF_JOBS", "16"))

BASE_ENV = dict(os.environ)
BASE_ENV["CARGO_NET_OFFLINE"] = "true"
BASE_ENV.pop("RUSTFLAGS", None)  # harness/.cargo/config.toml carries the cfg flags

CFG = "--cfg deltio_verif --cfg tokio_unstable"

ENGINES = {
    # name: (build argv, env overrides, binary path or None)
    "sim": {
        "build": ["cargo", "build", "--offline", "--bin", "dvsim", "--bin", "flowcheck"],
        "env": {},
        "bin": os.path.join(HARNESS, "target", "debug", "dvsim"),
    },
    "flow": {
        "build": ["cargo", "build", "--offline", "--bin", "dvsim", "--bin", "flowcheck"],
        "env": {},
        "bin": os.path.join(HARNESS, "target", "debug", "flowcheck"),
    },
    "asan": {
        "build": ["cargo", "+nightly", "build", "--offline", "--bin", "dvsim", "--target", "x86_64-unknown-linux-gnu",
                  "--target-dir", os.path.join(HARNESS, "target-asan")],
        "env": {"RUSTFLAGS": CFG + " -Zsanitizer=address -Cforce-frame-pointers=yes"},
        "bin": os.path.join(HARNESS, "target-asan", "x86_64-unknown-linux-gnu", "debug", "dvsim"),
    },
    "miri": {
        "build": ["cargo", "+nightly", "miri", "run", "--offline", "--bin", "dvsim", "--target-dir",
                  os.path.join(HARNESS, "target-miri"), "--", "list"],
        "env": {"RUSTFLAGS": CFG, "MIRIFLAGS": "-Zmiri-disable-isolation"},
        "bin": None,
    },
    "flowmiri": {
        "build": ["cargo", "+nightly", "miri", "run", "--offline", "--bin", "flowcheck", "--target-dir",
                  os.path.join(HARNESS, "target-miri"), "--", "noop"],
        "env": {"RUSTFLAGS": CFG, "MIRIFLAGS": "-Zmiri-disable-isolation"},
        "bin": None,
    },
}

_built = {}


def build(engine):
    if engine in _built:
        return _built[engine]
    spec = ENGINES[engine]
    env = dict(BASE_ENV)
    env.update(spec["env"])
    os.makedirs(os.path.join(ROOT, ".work"), exist_ok=True)
    lock = open(os.path.join(ROOT, ".work", "build-%s.lock" % engine), "w")
    fcntl.flock(lock, fcntl.LOCK_EX)
    try:
        p = subprocess.run(spec["build"], cwd=HARNESS, env=env, stdout=subprocess.PIPE, stderr=subprocess.STDOUT, text=True)
    finally:
        fcntl.flock(lock, fcntl.LOCK_UN)
        lock.close()
    ok = p.returncode == 0
    _built[engine] = (ok, p.stdout)
    return _built[engine]


def build_all(verbose=False):
    ok_all = True
    for e in ("sim", "asan", "miri", "flowmiri"):
        t = time.time()
        ok, log = build(e)
        if verbose:
            print("build %-8s %s (%.0fs)" % (e, "ok" if ok else "FAILED", time.time() - t))
            if not ok:
                print(log[-3000:])
        # only the sim engine is indispensable for the quick tier
        if e == "sim" and not ok:
            ok_all = False
    return ok_all


def _shard_cmd(job, seed, tier, shard, shards, out):
    eng = job["engine"]
    args = ["run", job["scenario"], "--seed", str(seed), "--tier", tier, "--shard", str(shard), "--shards", str(shards),
            "--transport", job.get("transport", "direct"), "--engine", job.get("engine_arg") or {"sim": "sim", "asan": "mt", "miri": "miri"}.get(eng, eng),
            "--out", out]
    if job.get("episodes") is not None:
        args += ["--episodes", str(job["episodes"])]
    params = dict(job.get("params", {}))
    if eng != "miri":
        # every shard stops starting new episodes well before the runner's own time limit for it (a
        # busy machine makes a run shorter, not broken); the report then says that the plan was cut
        params.setdefault("budget_s", int(job.get("timeout_s", 900) * 0.65))
    for k, v in sorted(params.items()):
        args += ["-p", "%s=%s" % (k, v)]
    env = dict(BASE_ENV)
    spec = ENGINES[eng]
    if eng == "miri":
        env.update(spec["env"])
        flags = "-Zmiri-disable-isolation"
        if job.get("miriflags"):
            flags += " " + job["miriflags"]
        env["MIRIFLAGS"] = flags
        cmd = ["cargo", "+nightly", "miri", "run", "--offline", "--bin", "dvsim", "--target-dir",
               os.path.join(HARNESS, "target-miri"), "--"] + args
    else:
        cmd = [spec["bin"]] + args
        if eng == "asan":
            env["ASAN_OPTIONS"] = "detect_leaks=1:halt_on_error=1:abort_on_error=0:exitcode=23:detect_stack_use_after_return=0"
            env["LSAN_OPTIONS"] = "exitcode=23"
    return cmd, env


def run_job(pid, job, seed, tier, work):
    """Runs one job (all of its shards) and returns the merged job result."""
    t0 = time.time()
    if job["engine"] in ("flow", "flowmiri"):
        import flowjobs
        return flowjobs.run(pid, job, seed, tier, work)
    shards = job.get("shards", NCPU)
    timeout = job.get("timeout_s", 900)
    outs = []

    def one(i):
        out = os.path.join(work, "%s-%d.json" % (job["name"], i))
        for stale in (out, out + ".partial"):
            if os.path.exists(stale):
                os.remove(stale)
        cmd, env = _shard_cmd(job, seed, tier, i, shards, out)
        try:
            p = subprocess.run(cmd, cwd=HARNESS, env=env, stdout=subprocess.PIPE, stderr=subprocess.PIPE, text=True, timeout=timeout)
            return i, out, p.returncode, p.stderr[-6000:], cmd
        except subprocess.TimeoutExpired as e:
            return i, out, "timeout", (e.stderr or b"")[-2000:] if isinstance(e.stderr, bytes) else "", cmd

    with ThreadPoolExecutor(max_workers=min(NCPU, shards)) as ex:
        outs = list(ex.map(one, range(shards)))

    res = {"job": job, "episodes": 0, "nontrivial": 0, "keys": set(), "violations": [], "inconclusive": {},
           "counters": {}, "minmax": {}, "samples": [], "hooks": {}, "panics": [], "rule": "", "exhaustive": True,
           "shards": shards, "infra_error": None}
    for i, out, rc, err, cmd in outs:
        # a shard that did not end normally: what it had found (and put on disk) before still counts
        if (rc != 0 or not os.path.exists(out)) and os.path.exists(out + ".partial"):
            try:
                for v in json.load(open(out + ".partial")).get("violations", []):
                    v["job"] = job["name"]
                    v["detail"] = (v.get("detail") or "") + " [reported by a shard that ended abnormally later (rc=%s)]" % rc
                    res["violations"].append(v)
            except Exception:  # noqa: BLE001
                pass
        if rc == "timeout":
            res["inconclusive"]["shard-watchdog(%s)" % job["name"]] = res["inconclusive"].get("shard-watchdog(%s)" % job["name"], 0) + 1
            res["exhaustive"] = False
            continue
        if rc == 97:
            k = "episode-watchdog(%s): %s" % (job["name"], (err.strip().splitlines() or ["?"])[-1][:200])
            res["inconclusive"][k] = res["inconclusive"].get(k, 0) + 1
            res["infra_error"] = "an episode did not finish within its wall-clock watchdog (inconclusive, run incomplete)"
            res["exhaustive"] = False
            continue
        if rc == 98:
            # the livelock watchdog of the harness: the server spun (millions of actor turns) without
            # any client-visible event - a request that never terminates although work is being done
            line = ([l for l in err.strip().splitlines() if "EPISODE-LIVELOCK" in l] or ["?"])[-1]
            prop = job.get("crash_property") or pid
            res["violations"].append({"property": prop, "sig": "%s:livelock" % prop, "detail": line[:600],
                                      "params": {"scenario": job["scenario"], "ep_seed": seed, "shard": i, "shards": shards, "cmd": " ".join(cmd)},
                                      "history": err.splitlines()[-20:], "job": job["name"]})
            res["exhaustive"] = False
            continue
        if rc != 0 or not os.path.exists(out):
            sig, detail = classify_crash(err)
            if sig:
                res["violations"].append({"property": (job.get("crash_property") or pid), "sig": "%s:%s" % ((job.get("crash_property") or pid), sig),
                                          "detail": detail, "params": {"scenario": job["scenario"], "ep_seed": seed, "shard": i,
                                                                        "shards": shards, "cmd": " ".join(cmd)},
                                          "history": err.splitlines()[-60:], "job": job["name"]})
            else:
                k = "shard-died(%s rc=%s)" % (job["name"], rc)
                res["inconclusive"][k] = res["inconclusive"].get(k, 0) + 1
                res["infra_error"] = "shard %d exited rc=%s: %s" % (i, rc, err[-800:])
            res["exhaustive"] = False
            continue
        try:
            d = json.load(open(out))
        except Exception as e:  # noqa: BLE001
            res["infra_error"] = "bad shard report: %s" % e
            continue
        res["episodes"] += d["episodes"]
        res["nontrivial"] += d["nontrivial"]
        res["keys"].update(d["keys"])
        for v in d["violations"]:
            v["job"] = job["name"]
            res["violations"].append(v)
        for k, n in d["inconclusive"].items():
            res["inconclusive"][k] = res["inconclusive"].get(k, 0) + n
        for k, n in d["counters"].items():
            res["counters"][k] = res["counters"].get(k, 0) + n
        for k, (lo, hi) in d["minmax"].items():
            if k in res["minmax"]:
                res["minmax"][k] = [min(lo, res["minmax"][k][0]), max(hi, res["minmax"][k][1])]
            else:
                res["minmax"][k] = [lo, hi]
        for k, n in d["hooks"].items():
            res["hooks"][k] = res["hooks"].get(k, 0) + n
        if len(res["samples"]) < 3:
            res["samples"].extend(d["samples"][:1])
        res["panics"].extend(d.get("panics", [])[:5])
        res["rule"] = d.get("rule", "")
        res["exhaustive"] = res["exhaustive"] and bool(d.get("exhaustive_plan"))
        if d.get("truncated"):
            res["note"] = "time budget reached before the plan was complete"
    res["distinct"] = len(res["keys"])
    res["wall_s"] = time.time() - t0
    return res


def classify_crash(stderr):
    """Maps a dead shard's stderr to a violation signature, or (None, None)."""
    s = stderr or ""
    if "unsafe precondition(s) violated" in s:
        return "ub-check:unsafe-precondition", "checked abort: " + s.strip().splitlines()[-1][:300]
    if "ERROR: AddressSanitizer" in s:
        line = [l for l in s.splitlines() if "ERROR: AddressSanitizer" in l][0]
        return "asan:" + line.split("AddressSanitizer:")[1].split()[0], line[:300]
    if "ERROR: LeakSanitizer" in s:
        return "lsan:leak", "LeakSanitizer reported leaks"
    if "Undefined Behavior" in s:
        line = [l for l in s.splitlines() if "Undefined Behavior" in l][0]
        return "miri:ub", line[:300]
    if "the evaluated program deadlocked" in s:
        return "miri:deadlock", "Miri: the evaluated program deadlocked"
    if "memory leaked" in s:
        return "miri:leak", "Miri: memory leaked"
    if "Data race detected" in s:
        return "miri:data-race", [l for l in s.splitlines() if "Data race" in l][0][:300]
    return None, None


def merge(results):
    m = {"episodes": 0, "nontrivial": 0, "keys": set(), "violations": [], "inconclusive": {}, "counters": {},
         "minmax": {}, "samples": [], "hooks": {}, "panics": []}
    for r in results:
        m["episodes"] += r["episodes"]
        m["nontrivial"] += r["nontrivial"]
        m["keys"].update((r["job"]["name"], k) for k in r["keys"])
        m["violations"].extend(r["violations"])
        for k, n in r["inconclusive"].items():
            m["inconclusive"][k] = m["inconclusive"].get(k, 0) + n
        for k, n in r["counters"].items():
            m["counters"][k] = m["counters"].get(k, 0) + n
        for k, (lo, hi) in r["minmax"].items():
            if k in m["minmax"]:
                m["minmax"][k] = [min(lo, m["minmax"][k][0]), max(hi, m["minmax"][k][1])]
            else:
                m["minmax"][k] = [lo, hi]
        for k, n in r["hooks"].items():
            m["hooks"][k] = m["hooks"].get(k, 0) + n
        m["samples"].extend(r["samples"][:2])
        m["panics"].extend(r["panics"][:5])
    m["distinct"] = len(m["keys"])
    return m


def replay(path):
    path = os.path.abspath(path)
    d = json.load(open(path))
    eng = "sim"
    ok, log = build(eng)
    if not ok:
        print(log[-3000:])
        return 2
    params = d.get("params", {})
    if "cmd" in params:
        print("this violation came from a crashed shard; re-run:\n  " + params["cmd"])
        return 2
    p = subprocess.run([ENGINES[eng]["bin"], "replay", path], cwd=HARNESS, env=BASE_ENV)
    return p.returncode
