#!/usr/bin/env python3
"""Writes /verif/MANIFEST.json from the job table (so the two never drift)."""
import json
import os
import subprocess
import sys

ROOT = os.path.dirname(os.path.dirname(os.path.abspath(__file__)))
sys.path.insert(0, os.path.join(ROOT, "runner"))
import jobs as JOBS  # noqa: E402

props = [json.loads(l) for l in open(os.path.join(ROOT, "properties.jsonl"))]
hooks = subprocess.run(["git", "-C", "/repo", "log", "--format=%h %s"], stdout=subprocess.PIPE, text=True).stdout.splitlines()
hook_commits = [l.split()[0] for l in hooks if l.split(" ", 1)[1].startswith("verif hooks")]

checks = []
na = []
for p in props:
    pid = p["id"]
    if pid not in JOBS.PROPERTIES:
        na.append({"property_id": pid, "reason": JOBS.NOT_YET.get(pid, "check not built yet in this round; see DESIGN.md section 4")})
        continue
    spec = JOBS.PROPERTIES[pid]
    checks.append({
        "property_id": pid,
        "quick_cmd": "./check %s quick" % pid,
        "thorough_cmd": "./check %s thorough" % pid,
        "evidence_file": "/verif/evidence/%s.json" % pid,
        "replay_cmd_template": "./check %s --replay {path}" % pid,
        "engine": spec.get("engine", "dvsim"),
        "level_claimed": {"category": spec["level"], "text": spec["level_text"], "design_ref": "DESIGN.md section 4, %s" % pid},
        "level_note": spec["level_note"],
        "technique": spec["technique"],
    })

manifest = {
    "version": 1,
    "setup_cmd": "./check --build",
    "hooks": {
        "guard": "--cfg deltio_verif",
        "enable": "RUSTFLAGS='--cfg deltio_verif --cfg tokio_unstable' (set in /verif/harness/.cargo/config.toml; the harness crate path-depends on /repo and rebuilds it)",
        "baseline_off_cmd": "cd /repo && (cargo nextest run --workspace --no-fail-fast --tool-config-file pb:/w/lib/nextest.toml --profile pb --test-threads 8 --offline || cargo test --workspace --no-fail-fast --offline)",
        "source_commits": hook_commits,
        "add_only": True,
    },
    "engines": JOBS.ENGINES,
    "checks": checks,
    "not_applicable": na,
    "notes": "Runtime monitoring and sanitizers only: every property is decided by an oracle observing executions of the real deltio code (DESIGN.md). Known findings: /verif/known_findings.txt. Seeded breaks used to validate the monitors: /verif/seeded/.",
}
json.dump(manifest, open(os.path.join(ROOT, "MANIFEST.json"), "w"), indent=1)
print("wrote MANIFEST.json: %d checks, %d not_applicable" % (len(checks), len(na)))
