"""Which jobs decide which property (DESIGN section 4 and Appendix C)."""

COMMON_ASSUMPTIONS = [
    "runtime monitoring decides only the executions produced: bounded clients/resources/history lengths, sampled schedules",
    "monitored runs use the system allocator (mimalloc shim) and mostly in-memory transports; production uses mimalloc and sockets",
    "single-thread virtual-time episodes: tokio paused clock, seeded select! RNG, seeded hook yields",
]


def asan_mt(name, scenario, **kw):
    """E3: the same scenario on a multi-thread runtime (real clock) built with AddressSanitizer; only
    timing-independent oracles run; a wall-clock watchdog firing is inconclusive."""
    j = {"name": name, "engine": "asan", "scenario": scenario, "timeout_s": 1500, "crash_property": None}
    j.update(kw)
    return j


def miri(name, scenario, episodes, **kw):
    """E4: the same dvsim binary under Miri (UB / aliasing / leak checking while the ordinary oracles run)."""
    j = {"name": name, "engine": "miri", "scenario": scenario, "episodes": episodes, "timeout_s": 3000, "require_nontrivial": False}
    j.update(kw)
    return j


def sim(name, scenario, **kw):
    j = {"name": name, "engine": "sim", "scenario": scenario}
    j.update(kw)
    return j


def c12_jobs(tier):
    jobs = [sim("c12-direct", "c12", require_counters=["topic_deleted_before_subscription", "stream_ended_not_found", "delete_inside_burst_over_mailbox", "delete_abandoned_by_its_client", "same_name_created_around_the_delete", "a_stream_that_stopped_reading_at_the_deletion"])]
    # requests that reach the subscription in the instant its actor stops: two steps of the sender on
    # worker threads, one step on the simulated engine - stable build, 6-worker runtime, real clock
    jobs.append(sim("c12-deletion-instant-mt", "c12m", engine_arg="mt", shards=8, episodes=48 if tier == "quick" else 192,
                    require_counters=["rounds_completed", "parked_pulls_released_by_deletion", "streams_ended_by_the_deletion"], require_nontrivial=False))
    if tier == "thorough":
        jobs.append(sim("c12-h2", "c12", transport="h2"))
    return jobs


SIM_NOTE = ("Trusted base: the harness (recorder, oracle), tokio's paused clock and seeded scheduler, the mimalloc->system "
            "allocator shim. Held = held on the executions produced (bounded, sampled), not verified.")

def c07_jobs(tier):
    jobs = [sim("c07-direct", "c07", require_counters=["mailbox_full_observations", "empty_wakeups_mid_wait"]),
            # the manager -> registry lock nesting needs real threads: stable build, multi-thread runtime, real clock
            sim("c07-pushlock-mt", "c07p", engine_arg="mt", shards=8, require_counters=["calls.CreatePushOk", "registered_ok", "hook_points_during_client_phase"])]
    # every request issued in the instant its subscription goes away is answered (worker threads)
    jobs.append(sim("c07-deletion-instant-mt", "c12m", engine_arg="mt", shards=8, episodes=48 if tier == "quick" else 192,
                    require_counters=["rounds_completed"], require_nontrivial=False))
    if tier == "thorough":
        jobs.append(sim("c07-h2", "c07", transport="h2", require_counters=["mailbox_full_observations"]))
        jobs.append(asan_mt("c07-asan-mt", "c07", crash_property="C07"))
    return jobs


def c18_jobs(tier):
    return [sim("c18-namescan", "c18", evaluations_counter="inputs", require_counters=["inputs", "api_round_trips", "twin_names_checked"])]


def c16_jobs(tier):
    return [sim("c16-crashpoints", "c16", require_counters=["abandoned_mid_flight", "abandoned_with_full_mailbox_seen", "dropped_while_parked", "names_reused_after_abandonment", "retried_deletes_answered"]),
            # an abandoned DeleteSubscription followed at once by a create of the same name, with the push loop running
            sim("c16-lifecycle", "c14r", require_counters=["recreated_behind_an_abandoned_delete"], require_nontrivial=False),
            # pages of 1000-2000 messages handed to a consumer that never answers, other requests arriving
            # at the subscription in every millisecond in which the leases run out: all of them come back
            sim("c16-mass-expiry", "c04", params={"only_mass": 1}, require_counters=["lookups_while_pages_expire", "whole_pages_redelivered_after_one_instant_expiry"], require_nontrivial=False)]


def c14_jobs(tier):
    return [sim("c14-push-faults", "c14", require_counters=["posts_observed", "delete_while_failing_checked", "rounds_against_closed_port", "answers.102", "answers.late90s-200", "answers.reset", "pages_accepted_in_one_instant"]),
            sim("c14-lifecycle", "c14r", require_counters=["names_reused", "posts_observed", "rejected_creates", "pull_only_read_back"])]


def c02_jobs(tier):
    jobs = [sim("c02-seq", "c02", require_counters=["effective_acks", "stale_unknown_repeated_acks", "deadline_crossings_after_ack", "acks_sent_over_a_stream", "nacks_naming_one_id_twice"]),
            conc("c02-conc", "c03", params={"n": 1500 if tier == "quick" else 20000}, require_counters=["certainly_effective_acks"]),
            sim("c02-stream-mixed", "c05", require_nontrivial=False)]
    if tier == "thorough":
        jobs.append(miri("c02-miri", "c02", 48))
        jobs.append(conc("c02-conc-h2", "c03", transport="h2", params={"n": 4000}))
    return jobs


def c04_jobs(tier):
    extra = []
    if tier == "thorough":
        extra = [miri("c04-miri", "c04", 14), sim("c04-phases-h2", "c04", transport="h2", episodes=3300)]
    extra.append(conc("c04-conc", "c03", params={"n": 1500 if tier == "quick" else 20000}))
    # leases that run out on a subscription whose topic is gone (delete / re-create walks, exact model)
    extra.append(sim("c04-detached", "c11", require_nontrivial=False))
    # push consumers: an endpoint that takes 20-90 s to answer holds a lease like any other consumer
    extra.append(sim("c04-push", "c14", require_counters=["answers.late90s-200"], require_nontrivial=False))
    return extra + [sim("c04-phases", "c04", require_counters=["expiry_measured_by_blocked_pull", "expiry_measured_by_stream", "probe_before_deadline_empty", "probe_after_slack_returned", "second_expiry_observed", "whole_pages_redelivered_after_one_instant_expiry", "early_looks_under_long_deadlines"])]


def c05_jobs(tier):
    jobs = [sim("c05-grid", "c05", require_counters=["modifications", "nacks", "parked_consumer_woken_by_nack", "probe.new-1ms.returned", "probe.new+slack.returned", "mixed_batches_checked"]),
            sim("c05-alphabet", "c02", params={"random": 0}, require_nontrivial=False)]
    if tier == "thorough":
        jobs.append(miri("c05-miri", "c05", 32))
        jobs.append(sim("c05-grid-h2", "c05", transport="h2", episodes=4000))
    return jobs


def c17_jobs(tier):
    jobs = [sim("c17-hostile", "c17", require_counters=["hostile_requests_answered"]),
            # inconsistent control messages (one delivery named twice with different seconds): no crash later
            sim("c17-modify-grid", "c05", crash_property="C17", require_nontrivial=False),
            sim("c17-lifecycle", "c14r", require_counters=["rejected_creates", "odd_endpoints_accepted"], require_nontrivial=False),
            # the full hyper/h2 path: a status that cannot be delivered shows as a broken stream only there
            sim("c17-hostile-h2q", "c17", transport="h2", episodes=1200, require_counters=["hostile_requests_answered"])]
    if tier == "thorough":
        jobs.append(sim("c17-hostile-h2", "c17", transport="h2", episodes=8000))
        jobs.append(asan_mt("c17-asan-mt", "c17", crash_property="C17"))
        jobs.append(miri("c17-miri", "c17", 16))
    return jobs


def c13_jobs(tier):
    return [sim("c13-walks", "c13", require_counters=["walks_completed", "hostile_tokens_tried", "negative_size_rejected", "hostile_token_served", "hostile_token_rejected"]),
            # listings after racing creates / deletes of one name (the exact model of the delete / re-create walk)
            sim("c13-after-races", "c11", require_nontrivial=False),
            # the same walks on a 4-worker runtime (real clock): a page is assembled from the answers of
            # many actors running on different threads, so "creation order" cannot come from reply order
            sim("c13-walks-mt", "c13", engine_arg="mt", shards=8, require_counters=["walks_completed"], require_nontrivial=False)]


def c15_jobs(tier):
    return [sim("c15-grid", "c15", require_counters=["blocking_pull_timed_against_limit", "blocked_pull_woken_by_publish", "stream_limit_checked", "blocking_pull_after_drain_timed", "parked_consumers_served_by_big_publish", "heavy_message_published_to_parked_consumers"]),
            sim("c15-waiters", "c06", params={"n": 2000}, require_nontrivial=False),
            # pulls with limits 1 and 3 inside bursts, one burst in five arriving in the instant in which
            # up to six earlier leases run out: no pull returns more than it asked for
            sim("c15-bursts", "c07", require_counters=["bursts_at_the_expiry_instant"], require_nontrivial=False)]


def conc(name, profile, **kw):
    params = {"profile": profile}
    params.update(kw.pop("params", {}))
    return sim(name, "conc", params=params, **kw)


def c01_jobs(tier):
    jobs = [conc("c01-conc", "c01", require_counters=["obligations", "redeliveries", "mailbox_full_observations"]),
            sim("c01-seq-cycles", "c02", params={"len": 3}, require_nontrivial=False)]
    jobs.append(sim("c01-volume", "c15", require_nontrivial=False))
    jobs.append(sim("c01-detached", "c11", require_nontrivial=False))
    # deadline modifications of every shape (same deadline, duplicate IDs, dead IDs in front): the
    # unacknowledged message must still come back
    jobs.append(sim("c01-modify-grid", "c05", require_nontrivial=False))
    # push consumers: a message the endpoint refused keeps being POSTed until it is accepted
    jobs.append(sim("c01-push", "c14", require_nontrivial=False))
    # pull subscriptions that live beside push subscriptions (creates, rejected creates, deletes, name
    # reuse): what is published to them reaches their own consumers
    jobs.append(sim("c01-push-lifecycle", "c14r", require_counters=["pull_only_read_back"], require_nontrivial=False))
    if tier == "thorough":
        jobs.append(conc("c01-conc-h2", "c01", transport="h2"))
        jobs.append(asan_mt("c01-asan-mt", "conc", params={"profile": "c01"}, crash_property="C01"))
    return jobs


def c03_jobs(tier):
    jobs = [conc("c03-conc", "c03", require_counters=["subscriptions_with_2plus_consumers", "redeliveries"]),
            sim("c03-seq-model", "c05", require_nontrivial=False),
            sim("c03-seq-deadlines", "c04", require_nontrivial=False),
            # pulls with limits around the 16-bit wrap (0, 65536, ...): ack ids stay unique, leases exclusive
            sim("c03-limits", "c15", require_nontrivial=False),
            sim("c03-push-vs-pull", "c14", params={"maxlen": 1}, require_counters=["competitor_deliveries"], require_nontrivial=False),
            conc("c03-conc-c01mix", "c01", params={"n": 1500 if tier == "quick" else 20000}),
            # push rounds over a backlog of 2300 messages with an endpoint that takes 20 ms per POST:
            # nothing is POSTed a second time while the lease of its first POST is running
            sim("c03-push-lifecycle", "c14r", require_counters=["big_push_backlogs_drained"], require_nontrivial=False)]
    if tier == "thorough":
        jobs.append(conc("c03-conc-h2", "c03", transport="h2"))
        jobs.append(asan_mt("c03-asan-mt", "conc", params={"profile": "c03"}, crash_property="C03"))
    return jobs


def c08_jobs(tier):
    jobs = [conc("c08-conc", "c08", require_counters=["overlapping_publish_pairs", "first_deliveries", "mailbox_full_observations"]),
            # what a consumer finds right after another consumer's pull was abandoned at any of its suspension points
            sim("c08-abandoned-pull", "c16", require_counters=["order_checked_after_abandoned_pull"], require_nontrivial=False)]
    if tier == "thorough":
        jobs.append(conc("c08-conc-h2", "c08", transport="h2"))
    return jobs


def c09_jobs(tier):
    return [sim("c09-payloads", "c09", require_counters=["messages_delivered_3_times", "topic_recreations"]),
            conc("c09-conc-identity", "c01", params={"n": 1000 if tier == "quick" else 10000}, require_counters=["identity_deliveries_checked"]),
            sim("c09-push", "c14", params={"maxlen": 1 if tier == "quick" else 2}, require_counters=["post_attributes_equal"], require_nontrivial=False),
            # publishes that fail half-way (a subscription created and deleted at the same moment): ids stay unique
            conc("c09-conc-churn", "c08", params={"n": 1000 if tier == "quick" else 10000}, require_nontrivial=False)]


def c06_jobs(tier):
    jobs = [sim("c06-wake", "c06", require_counters=["quiescent_points_with_waiter", "wakeups_by_publish", "wakeups_by_nack", "wakeups_by_expiry", "hand_on_wakeups", "cancelled_in_the_instant_of_notify", "cancel_with_saturated_mailbox", "nacks_in_mixed_control_message"]),
            sim("c06-wake-noyield", "c06", params={"yields": 0}),
            # parked consumers met by one publish that makes the backlog 65536, 65537, ... 131075 long
            sim("c06-big-publishes", "c15", params={"only_big": 1}, require_nontrivial=False)]
    if tier == "thorough":
        jobs.append(sim("c06-wake-h2", "c06", transport="h2"))
    return jobs


def c10_jobs(tier):
    jobs = [sim("c10-wgl", "c10", require_counters=["overlapping_operation_pairs", "names_checked", "overlapping_double_delete_ok"]),
            sim("c10-seq-status", "c11", require_counters=["duplicate_topic_creates_refused"], require_nontrivial=False),
            # check-then-act on the name maps needs real threads: stable build, 4-worker runtime, real clock
            sim("c10-wgl-mt", "c10", engine_arg="mt", shards=8, require_counters=["episodes_with_barrier_racers"], require_nontrivial=False)]
    if tier == "thorough":
        jobs.append(sim("c10-wgl-h2", "c10", transport="h2"))
        jobs.append(asan_mt("c10-asan-mt", "c10", crash_property="C10"))
    return jobs


def c11_jobs(tier):
    jobs = [sim("c11-push-lifecycle", "c14r", require_nontrivial=False),
            sim("c11-walk", "c11", require_counters=["cross_view_checks", "recreations_with_cross_view", "create_delete_races", "abandoned_control_requests", "stale_topic_handle_deletes", "delete_inside_publish_burst"])]
    if tier == "thorough":
        jobs.append(sim("c11-walk-h2", "c11", transport="h2"))
    return jobs


def c19_jobs(tier):
    if tier == "thorough":
        return [{"name": "c19-native", "engine": "flow", "trials": 1_000_000, "require_counters": ["trials_with_parked_waiter"]},
                {"name": "c19-miri", "engine": "flowmiri", "seeds": 2000, "require_counters": ["miri_executions"], "timeout_s": 3000}]
    return [{"name": "c19-native", "engine": "flow", "trials": 100_000, "require_counters": ["trials_with_parked_waiter"]},
            {"name": "c19-miri", "engine": "flowmiri", "seeds": 64, "require_counters": ["miri_executions"]}]


CONC_NOTE = SIM_NOTE + " Concurrent histories: oracles are sound necessary conditions over intervals (happens-before from return.seq < call.seq, leases as virtual-time intervals); ambiguous attributions are skipped and counted."

PROPERTIES = {
    "C19": {"level": "exploration", "jobs": c19_jobs, "engine": "flowcheck (native threads) + Miri",
            "technique": "runtime monitoring of a lock-free component under real threads: trace-based oracle (mutations serialised and shadowed under one mutex) with a logical lost-wake-up verdict, plus Miri's seeded scheduler, data-race and deadlock detection",
            "level_text": "Real OS threads drive wait_for_available_space() with a hand-written executor while mutator threads call inc/dec through a wrapper that appends every counter update to a trace under the same mutex as the call it shadows. A waiter that returned must have been able to observe messages < max and then bytes < max inside the trace window of its *final poll* (the real code evaluates both counters in one poll); once all mutators are done and the final counters are below both limits, a waiter that is parked with its waker not fired can never run again, which is decided logically without a timeout; scripts where a single dec frees capacity must release every parked waiter; a patient script frees messages, takes them again and then frees bytes, so that capacity never exists until its last step. 10^5 (quick) / 10^6 (thorough) jittered native trials plus 64 / 2000 Miri schedules with data-race, weak-memory and deadlock checking. A sample of interleavings, not all of them.",
            "level_note": "Trusted base: the harness executor and trace wrapper (in half of the trials mutators are serialised against each other by the wrapper's mutex, in the other half they overlap freely; waiters never take the mutex), std::thread scheduling, Miri's scheduler. Held = held on the interleavings produced.",
            "assumptions": ["FlowControl is not wired into the server; it is exercised as the free-standing public component it is"]},
    "C06": {"level": "exploration", "jobs": c06_jobs, "engine": "dvsim",
            "technique": "runtime monitoring at logical quiescence: non-destructive lost-wake-up monitor (hook stats) over seeded waiter/cancel/availability step sequences on a paused clock",
            "level_text": "The unbounded 'eventually woken' is restated as bounded progress: at a quiescent point of the paused runtime nothing can run without a new request or time passing, so a message in the backlog while a live consumer waits is a lost wake-up. Episodes interleave blocked Pulls and open StreamingPulls (batch limits 1-3) with publishes, nacks from other clients and deadline expiries (also with acks and look-ups already on their way when the clock jumps past the deadline), cancellations while parked, in the instant of the notification, and while the woken consumer's pull waits at a saturated mailbox; the monitor reads stats through the hook (never a probe pull) and reports only what persists over two barriers. Runs with and without seeded hook yields. Schedules are sampled.",
            "level_note": CONC_NOTE if False else SIM_NOTE, "assumptions": ["liveness restated as: no backlog with a live waiting consumer at logical quiescence"]},
    "C10": {"level": "exploration", "jobs": c10_jobs, "engine": "dvsim",
            "technique": "runtime monitoring with a linearizability checker: per-name Wing-Gong/Lowe search over recorded concurrent control-plane histories, plus exact status checks in sequential walks",
            "level_text": "4-8 clients hammer 2 topic names and 3 subscription names in 2 projects with create/get/list/delete and data-plane calls (racing creates, create racing delete, a different ack deadline per incarnation so reads identify it); the recorded history is split per name (P-compositionality) and searched for a linearization against a 2-state register specification with a two-point Delete (two overlapping deletes may both succeed; counted in the evidence) and optional effect for calls answered FAILED_PRECONDITION/INTERNAL. Half of the episodes add 2-4 clients released together by a barrier that issue the same create/delete on one name; the same scenario also runs on a 4-worker runtime with the real clock (a check-then-act without an await in between only interleaves there). Sequential walks (C11 scenario) check every status exactly against the model. A search that exceeds its node budget is inconclusive. Schedules are sampled.",
            "level_note": SIM_NOTE + " Histories are short by construction (<= 62 operations per name).", "assumptions": ["statuses that only a race with a deletion produces carry no information"]},
    "C11": {"level": "exploration", "jobs": c11_jobs, "engine": "dvsim",
            "technique": "runtime monitoring: cross-view consistency monitor at quiescent points plus the exact reference model over seeded delete/re-create walks with races",
            "level_text": "Seeded walks over 2 topic names x 3 subscription names create, delete and re-create both kinds, publish, pull, ack and advance time, including DeleteSubscription / DeleteTopic / CreateSubscription racing a Publish (also inside a burst larger than the topic's mailbox), abandoned control-plane requests, and a DeleteTopic held back on the handle it looked up until the topic was deleted and re-created by somebody else; after every step the exact model must hold (incarnations, no re-attachment to a re-created namesake, `_deleted_topic_`, messages kept and served after the topic is gone, nothing delivered after deletion) and at every quiescent point ListTopicSubscriptions of every live topic must equal both the set of live subscriptions reporting that topic and the model's attachment set. Histories are sampled.",
            "level_note": SIM_NOTE, "assumptions": []},
    "C01": {"level": "exploration", "jobs": c01_jobs, "engine": "dvsim",
            "technique": "runtime monitoring of concurrent multi-client histories: conservation / at-least-once accounting with an exact end-of-episode drain on a virtual clock",
            "level_text": "Thousands of seeded concurrent episodes (publishers, unary/blocking/streaming consumers, ackers, nackers, deadline modifiers, subscription and topic churn, bursts larger than the actor mailboxes) run against the real services with seeded scheduler yields; every published message carries a unique tag. After the clients finish, all leases are left to expire and every live subscription is drained, so for every (publish, message, subscription) obligation the checker knows whether the message was delivered, whether it kept coming back while unacknowledged, and whether anything spurious (wrong topic, published before the subscription existed) was delivered; hook stats must read 0/0. Schedules are sampled, hence exploration.",
            "level_note": CONC_NOTE, "assumptions": ["names are not reused inside a data-plane episode, so a name is an incarnation"]},
    "C03": {"level": "exploration", "jobs": c03_jobs, "engine": "dvsim",
            "technique": "runtime monitoring of concurrent consumer histories: lease-interval exclusivity, ack-id uniqueness and per-response duplicate checks on a virtual clock",
            "level_text": "(Push rounds as a consumer kind: in five episodes of the scripted-endpoint scenario a unary puller competes with the push loop for one subscription and no message may be POSTed while the puller's lease runs, nor pulled while its POST is pending.) 3-8 competing consumers of mixed kinds share one subscription with publishers, ackers, nackers and deadline modifiers while virtual time advances; the lease checker computes for every pair of consecutive deliveries of a message the earliest instant the first lease could have ended (deadline, every possibly applied modification, every nack call) and flags a second hand-out before it, any ack-id string seen twice on a subscription, and any response listing a message twice. Hand-out instants are exact on the paused clock. Schedules are sampled.",
            "level_note": CONC_NOTE, "assumptions": []},
    "C08": {"level": "exploration", "jobs": c08_jobs, "engine": "dvsim",
            "technique": "runtime monitoring of concurrent publisher/consumer histories: order checker over Publish responses and first deliveries",
            "level_text": "2-6 concurrent publishers (batches 1-8) race on one topic whose 2-3 subscriptions are read by consumers with small batch limits while bursts of pulls saturate the subscription mailboxes; the order checker requires one id per message in request order, ids increasing within a response and across happens-before-ordered publishes, and on every subscription first deliveries in id order (within a response by index, across responses whenever one is definitely earlier on the virtual clock), requests contiguous; a subscription created and deleted in the same instant next to the publishers makes publishes fail half-way (their messages are judged by the ids the deliveries carry, and no id may be issued twice). Redeliveries are exempt. Schedules are sampled.",
            "level_note": CONC_NOTE, "assumptions": ["no consumer is cancelled in this profile, so every hand-out is observed and 'first delivery' is exact"]},
    "C09": {"level": "exploration", "jobs": c09_jobs, "engine": "dvsim + scripted push endpoint",
            "technique": "runtime monitoring: byte-exact identity checker over every delivery path (Pull, StreamingPull, push POST) across payload/attribute classes, redeliveries and topic re-creation",
            "level_text": "Payload classes from empty to 1 MiB and attribute classes from none to 50 keys / non-ASCII / 4 KiB values are published, delivered at least three times each (first, after nack, after expiry) on two subscriptions through Pull and StreamingPull and POSTed to the scripted endpoint; every delivery is compared with the published record (data, attributes, the id Publish returned, constant publish_time) and ids must be unique across topics and across delete/re-create of a topic name (every 8th episode: 25-60 topics created in one server lifetime). Concurrent histories add the same identity rules under load. Inputs are sampled by class.",
            "level_note": SIM_NOTE, "assumptions": ["id reuse after 2^32 messages or topics is out of reach"]},
    "C13": {"level": "exploration", "jobs": c13_jobs, "engine": "dvsim",
            "technique": "runtime monitoring against a creation-ordered reference list: complete pagination walks over a boundary grid and hostile page tokens, sequential episodes",
            "level_text": "For resource counts {0,1,2,19,20,21,999,1000,1001,1005}, all three List RPCs, three interleaved projects (one sharing a name prefix) and deletion/re-creation histories, every page size of the boundary grid is walked to the empty token and compared with the model list (each resource once, creation order, page <= effective size, nothing foreign); negative sizes must be INVALID_ARGUMENT; hostile tokens (issued tokens shifted and truncated, random base64 of 0-16 bytes, non-base64, offsets up to 2^64-1) must be INVALID_ARGUMENT or yield a contiguous in-order slice, never a panic or hang. The grid is enumerated completely; token strings are sampled. The same walks run once more for counts {2,21,150,1001} on a 4-worker runtime with the real clock, where the answers of the resources' actors reach the listing handler from different threads.",
            "level_note": SIM_NOTE,
            "assumptions": ["no concurrent create/delete during a walk (the property's precondition)"]},
    "C15": {"level": "exploration", "jobs": c15_jobs, "engine": "dvsim",
            "technique": "runtime monitoring on a virtual clock against the reference model: boundary grid of batch limits x backlog sizes incl. the 16-bit wrap-around values, blocking pulls timed against the 5-minute limit",
            "level_text": "max_messages over {1,2,999,1000,1001,65535,65536,65537,131071,i32::MAX} x backlog sizes around the same values (quick: up to 3000; thorough: up to 70000), with and without return_immediately, pulled until drained: no response exceeds its limit, none is empty while messages are available, a blocking pull with messages available returns in the same virtual instant; a blocking pull on an empty subscription returns empty after exactly the 5-minute wait and a parked one is woken by a publish; 2-4 parked consumers met by one publish of 65536..131075 messages are all served; StreamingPull responses are checked against max_outstanding_messages {1,2,1000,65535}. Grid enumerated completely, sequences sampled.",
            "level_note": SIM_NOTE,
            "assumptions": []},
    "C17": {"level": "exploration", "jobs": c17_jobs, "engine": "dvsim",
            "technique": "runtime monitoring with structured hostile-input generators: every answer judged (status, no panic/hang), full observable state compared with the reference model after every rejection",
            "level_text": "Thousands of sequential episodes send 20-30 requests with one corrupted field (or a pair) to a populated server: hostile and near-miss resource names in every RPC, boundary integers, ack-ID batches with one bad element at each position, hostile page tokens, unsupported push endpoints, malformed StreamingPull first and control messages; huge (hundreds of KiB) ASCII and non-ASCII strings; on the direct transport and over the full hyper/h2 path (where an undeliverable status shows as a broken stream). Life-cycle walks add creates rejected for a foreign-project topic that carry a push_config (the push registry must not change). The monitor requires a gRPC status for each (never a panic, hang, UNKNOWN/INTERNAL or transport error), INVALID_ARGUMENT where C05/C13/C18 pin it, and after every error answer the hook stats of every subscription and all listings must equal the reference model's untouched state; at the end every subscription must still redeliver exactly the model's messages and a fresh round trip must work. Inputs are sampled from generators, so this is exploration.",
            "level_note": SIM_NOTE + " INVALID_ARGUMENT is demanded only where a property pins it; elsewhere any ordinary status is admitted.",
            "assumptions": ["sequential episodes: statuses that only a race with a deletion can produce do not occur"]},
    "C05": {"level": "exploration", "jobs": c05_jobs, "engine": "dvsim",
            "technique": "runtime monitoring on a virtual clock against the reference model: boundary-value grid for N, probes around old and new deadlines, request-atomicity probes after rejections, unary and streaming paths",
            "level_text": "For N over the boundary classes (1, 9, 10, 11, 30, 599, 600, 601, 65535, 65536, 65541, 66135, 100000, 131079, i32::MAX), three modification instants and both the unary RPC and the StreamingPull control message, the modified lease is probed 1 ms before and just after its new deadline and at its old one; N=0 is checked by probe and with a parked consumer; negative N and malformed ack IDs at every position of a batch must answer INVALID_ARGUMENT and leave both leases on their original deadlines; unknown and stale IDs must have no effect, and must not keep live IDs of the same request from being applied (dead IDs in front, duplicates, a modification that sets exactly the current deadline). Random histories and the exhaustive C02 alphabet (which contains nack and modify) add sequences. The grid is enumerated completely; the i32 range and histories are sampled by class.",
            "level_note": SIM_NOTE,
            "assumptions": ["'malformed ack ID' = a string the server cannot have issued: empty, letters, embedded spaces, 26-digit numbers, full-width digits, negative or fractional numerals"]},
    "C04": {"level": "exploration", "jobs": c04_jobs, "engine": "dvsim",
            "technique": "runtime monitoring on a virtual clock: phase-aligned deadline probes (epoch hook) and parked consumers measuring the real expiry instant, checked against the reference model",
            "level_text": "The hand-out instant is placed at every millisecond phase 0..99 of the server's 100 ms rounding grid (through the epoch hook) for each ack_deadline_seconds value and each consumer kind (probe pulls, a parked blocking pull, an open stream); the lease is probed 1 ms before its deadline (must be absent) and just after deadline + 999 ms (must be present), a parked consumer measures the real expiry instant (min/max lateness reported), and the old ack id is shown to be inert across a second expiry. Random histories add coexisting leases with different deadlines. Exhaustive at millisecond granularity over the stated values; other values and longer histories are sampled.",
            "level_note": SIM_NOTE + " Verdict bound is the property's sub-second slack (999 ms), not today's 100 ms; observed lateness is evidence only.",
            "assumptions": ["tokio timers have 1 ms resolution: expiry instants are observed rounded up to the next millisecond"]},
    "C02": {"level": "exploration", "jobs": c02_jobs, "engine": "dvsim",
            "technique": "runtime monitoring against an executable reference model: exhaustive bounded operation sequences + random sequential histories on a virtual clock, exact per-step oracle incl. stats of every subscription",
            "level_text": "All sequences up to length 4 (quick) / 5 (thorough) over a 16-letter alphabet (publish, pulls, ack of oldest/newest/stale/unknown/repeated IDs, one request with a dead ID in front of every live ID, one live ID repeated as many times as there are leases, as many dead IDs as there are leases, an ack 2 ms before the deadline followed by a clock jump past it, nack, modify, time advances to 1 ms before / just past the next deadline) run against the real services on a topic with two subscriptions, followed by three deadline crossings with full pulls; plus thousands of random 40-80 step histories. After every step the reference model must admit the response and the hook stats of both subscriptions must equal the model, so 'touches nothing else' is observed, not assumed. The bounded family is enumerated completely; longer histories are sampled.",
            "level_note": SIM_NOTE,
            "assumptions": ["acks inside the expiry window [D, D+999 ms] assert nothing (ambiguous)"]},
    "C14": {"level": "fault_enumeration", "jobs": c14_jobs, "engine": "dvsim + scripted push endpoint",
            "technique": "fault injection with runtime monitoring: scripted HTTP endpoint enumerates per-attempt behaviour sequences; offline checker over the endpoint's request log",
            "level_text": "The real push loop POSTs to a scripted raw-TCP HTTP endpoint inside the episode's runtime; every per-attempt behaviour sequence up to length 2 (quick) / 3 (thorough) over 17 behaviours (accepted and rejected statuses, interim 1xx, resets, late answers) is enumerated for 1 and 3 messages, plus closed-port and delete-while-failing episodes and two episodes in which a page of 60 messages is accepted in one and the same instant. The checker over the request log requires well-formed bodies naming the subscription, a re-POST after every failure within 2 intervals + margin, no POST after an accepted in-deadline answer for 5 virtual minutes, no POST for pull-only siblings and none after deletion. Life-cycle walks (create push to endpoint A or B / pull-only / rejected, delete subscription, delete and re-create topic, with name reuse and the push loop running) are compared with a reference model of name -> endpoint: every POST goes to the endpoint the named subscription had when the message was published, pull-only subscriptions keep their messages, and the push registry (hooked state) equals the model. Complete enumeration of the fault family to the bound; timing uses wide margins because virtual time is lumpy with real sockets.",
            "level_note": SIM_NOTE + " Real loopback sockets with a paused clock: time is monotone but lumpy, timing verdicts carry >=30 s margins; observations inside a margin are inconclusive.",
            "assumptions": ["ack deadline 60 s, push interval 1 s, 'late' = 90 s", "a connection closed right after accept stands in for 'refused' inside scripted sequences; a really closed port is covered by the special episodes"]},
    "C16": {"level": "fault_enumeration", "jobs": c16_jobs, "engine": "dvsim",
            "technique": "fault injection with runtime monitoring: poll-k-then-drop abandonment at every suspension point of every request kind, state compared with the two admissible outcomes at quiescence",
            "level_text": "Every request kind (20) is abandoned after exactly k polls for k=1..14 under four mailbox saturation settings (complete enumeration, repeated with seeded scheduler yields), on the real services with the handler future living inside the dropped client future. After quiescence the client-visible state (listings, attachment, stats, push registry), a probe publish to every topic and message accounting after the deadline must equal 'request completed' or 'request never received'; finally every subscription must still be deletable and its name creatable and attached again. Enumeration of crash points is complete for the direct transport up to k=14 (every kind completes in <=4 polls); schedules around it are sampled.",
            "level_note": SIM_NOTE + " Abandonment is injected on the direct transport only (exact crash points); over h2 cancellation arrives as RST_STREAM and is exercised by the C12/C06 stream aborts, not here.",
            "assumptions": ["a call still parked at quiescence with fewer than k polls is dropped there"]},
    "C18": {"level": "exploration", "jobs": c18_jobs, "engine": "dvsim (namescan mode)",
            "technique": "runtime monitoring of the parsing API: exhaustive structured input enumeration checked against an independent grammar oracle, plus gRPC round trips",
            "level_text": "Both name parsers are executed on an exhaustively enumerated family of ~3.6 million strings around the two fixed segments (all single-character edits of the prefix and of both segments, double edits, foreign same-length segments, all project/ID fillers up to length 3/4 over an alphabet with '/', '-', digits, letters and a multi-byte character), on random longer strings, and through Create->echo->Get round trips of the real services, including twin names that share 8..4000 bytes and differ in the last byte of the ID or the project (distinct resources, echoed whole, messages routed to the right one). An independent grammar decides acceptance; echo acceptance, same-resource and fixed-point are checked for every accepted string. The family is finite and enumerated completely (exhaustive: true), but the property quantifies over all strings, so the level is exploration.",
            "level_note": "Trusted base: the oracle grammar in harness/src/scen/c18.rs. Rejecting more than the grammar is allowed by the property's 'only if' and is not flagged.",
            "assumptions": ["empty project or ID segments are not flagged by the 'only if' rule; only shape, echo acceptance, same-resource, fixed-point and distinctness are"]},
    "C07": {"level": "exploration", "jobs": c07_jobs, "engine": "dvsim",
            "technique": "runtime monitoring: termination-at-quiescence oracle on a paused virtual clock over seeded burst workloads that saturate actor mailboxes",
            "level_text": "Burst episodes larger than the 16-slot actor mailboxes (17-60 simultaneous calls mixed with Publish / DeleteSubscription / DeleteTopic / CreateSubscription and stream control messages) run against the real services; on the paused clock one virtual hour passes only when no task can run, so any call still pending then can never complete. Hook counters prove that mailboxes were actually full. The burst may contain a DeleteSubscription abandoned by its client, and a delete probe afterwards must be answered. Lock nesting (manager -> registry) is exercised on a 6-worker runtime with the real clock: the push loop ticks every 1-3 ms over 300-1200 push subscriptions while clients create / look up / delete push subscriptions; a monitor thread outside the runtime counts completed calls, and 15 s without a single completion while calls are outstanding is a violation (blocked threads complete nothing; a slow machine completes little, not nothing). Exploration: the quantifier is over schedules, which are sampled (seeded yields at every mailbox site). Two jobs run on real worker threads with the real clock: control-plane calls against a push loop ticking every 1-3 ms (lock nesting; verdict by completed calls, the monitor stops the push loop before it decides), and the deletion instant (requests issued together with the DeleteSubscription of their subscription; verdict by the server's activity counter standing still).",
            "level_note": SIM_NOTE,
            "assumptions": ["'bounded amount of server work' is decided as: returned by the time the paused clock has auto-advanced one hour (5 min + 1 s for blocking pulls)"]},
    "C12": {"level": "exploration", "jobs": c12_jobs, "engine": "dvsim",
            "technique": "runtime monitoring: quiescence oracle over recorded client-boundary histories of seeded virtual-time episodes",
            "level_text": "Thousands of seeded episodes of the real gRPC stack on a paused clock: open streams (request side open/closed), blocked pulls and 0-10 (a third of the episodes: 17-70) in-flight calls are raced against DeleteSubscription under seeded select!/yield schedules on two transports; one virtual second after the delete returned the monitor requires every stream to have ended NOT_FOUND and every blocked pull to have returned an error. Exploration is the right level because the quantifier is over schedules, which can only be sampled. A second job runs the deletion instant on real worker threads (6-worker runtime, real clock; 7 200 / 28 800 rounds of parked Pulls, an open stream and 2-6 other requests issued together with the DeleteSubscription): there a call is reported only if it is still outstanding after the server's activity counter has stood still for 5 s.",
            "level_note": SIM_NOTE,
            "assumptions": ["'as soon as the deletion has been processed' is decided one virtual second after DeleteSubscription returned OK, at a quiescent point"]},
}

# Reasons for properties that have no check yet (kept current; empty when all are claimed).
NOT_YET = {}

ENGINES = [
    {"name": "dvsim-asan-mt", "path": "/verif/harness (bin dvsim, nightly -Zsanitizer=address, multi-thread runtime)", "serves_properties": ["C01", "C03", "C07", "C10", "C17"],
     "kind_free_text": "the CONC / burst / hostile-input workloads on a real-time multi-thread runtime under AddressSanitizer + LeakSanitizer; timing-independent oracles only; not replayable"},
    {"name": "dvsim-miri", "path": "/verif/harness (bin dvsim under cargo +nightly miri run)", "serves_properties": ["C02", "C04", "C05", "C17"],
     "kind_free_text": "small SEQ episodes interpreted by Miri: UB checks on the unsafe sites (take_expired's unwrap_unchecked, pin projections), aliasing, leaks, while the reference-model oracle runs"},
    {"name": "flowcheck", "path": "/verif/harness (bin flowcheck)", "serves_properties": ["C19"],
     "kind_free_text": "native std::thread stress with a trace oracle; the same binary under `cargo +nightly miri run` with -Zmiri-many-seeds"},
    {"name": "dvsim-mt", "path": "/verif/harness (bin dvsim --engine mt, stable build)", "serves_properties": ["C07", "C10", "C11", "C12", "C14"],
     "kind_free_text": "the same binary on a multi-thread runtime with the real clock, for what a single thread cannot interleave: lock nesting against a ticking push loop (c07p), check-then-act on the name maps (c10 racers), requests in the instant a subscription goes away (c12m). Verdicts by work done (completed calls, activity counter), never by elapsed time alone; wall-clock limits only produce 'inconclusive'"},
    {"name": "dvsim", "path": "/verif/harness (bin dvsim)", "serves_properties": sorted(PROPERTIES.keys()),
     "kind_free_text": "deterministic virtual-time simulator: real tonic services + generated clients in-process, paused tokio clock, seeded scheduler, client-boundary recorder, offline checkers"},
]
