"""Which jobs decide which property (DESIGN section 4 and Appendix C)."""

COMMON_ASSUMPTIONS = [
    "runtime monitoring decides only the executions produced: bounded clients/resources/history lengths, sampled schedules",
    "monitored runs use the system allocator (mimalloc shim) and mostly in-memory transports; production uses mimalloc and sockets",
    "single-thread virtual-time episodes: tokio paused clock, seeded select! RNG, seeded hook yields",
]


def sim(name, scenario, **kw):
    j = {"name": name, "engine": "sim", "scenario": scenario}
    j.update(kw)
    return j


def c12_jobs(tier):
    jobs = [sim("c12-direct", "c12")]
    if tier == "thorough":
        jobs.append(sim("c12-h2", "c12", transport="h2"))
    return jobs


SIM_NOTE = ("Trusted base: the harness (recorder, oracle), tokio's paused clock and seeded scheduler, the mimalloc->system "
            "allocator shim. Held = held on the executions produced (bounded, sampled), not verified.")

PROPERTIES = {
    "C12": {"level": "exploration", "jobs": c12_jobs, "engine": "dvsim",
            "technique": "runtime monitoring: quiescence oracle over recorded client-boundary histories of seeded virtual-time episodes",
            "level_text": "Thousands of seeded episodes of the real gRPC stack on a paused clock: open streams (request side open/closed), blocked pulls and in-flight calls are raced against DeleteSubscription under seeded select!/yield schedules on two transports; one virtual second after the delete returned the monitor requires every stream to have ended NOT_FOUND and every blocked pull to have returned an error. Exploration is the right level because the quantifier is over schedules, which can only be sampled.",
            "level_note": SIM_NOTE,
            "assumptions": ["'as soon as the deletion has been processed' is decided one virtual second after DeleteSubscription returned OK, at a quiescent point"]},
}

# Reasons for properties that have no check yet (kept current; empty when all are claimed).
NOT_YET = {}

ENGINES = [
    {"name": "dvsim", "path": "/verif/harness (bin dvsim)", "serves_properties": sorted(PROPERTIES.keys()),
     "kind_free_text": "deterministic virtual-time simulator: real tonic services + generated clients in-process, paused tokio clock, seeded scheduler, client-boundary recorder, offline checkers"},
]
