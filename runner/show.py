import json,sys
from collections import Counter
d=json.load(sys.stdin)
print({k:d[k] for k in ['episodes','nontrivial','counters','inconclusive','wall_s','minmax'] if k in d})
c=Counter(v['sig'] for v in d['violations']); print(c)
seen=set()
n=int(sys.argv[1]) if len(sys.argv)>1 else 12
for v in d['violations']:
    if v['sig'] not in seen:
        seen.add(v['sig']); print(v['sig'],'::',v['detail'][:400], v['params']['extra']); print('\n'.join(x[:200] for x in v['history'][-n:]))
